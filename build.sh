#!/bin/sh
# Offline build of the framework: engine binary, engine self-tests (models vs
# the native library), native tests of the reference oracles against the
# repository's own corpora.
set -e
export GOFLAGS=-mod=mod GOPROXY=off GOSUMDB=off GOTOOLCHAIN=local
cd "$(dirname "$0")"
mkdir -p bin evidence
(cd engine && go build -o ../bin/gosym .)
./bin/gosym -selftest
cp /repo/go.sum harness/go.sum
(cd harness && go build ./... && go test -count=1 ./... 2>&1 | tail -20)
