#!/bin/sh
# Offline build of the framework: engine binary, engine self-tests (models vs
# the native library), native tests of the reference oracles against the
# repository's own corpora.
set -e
export GOFLAGS=-mod=mod GOPROXY=off GOSUMDB=off GOTOOLCHAIN=local
cd "$(dirname "$0")"
mkdir -p bin evidence
(cd engine && go build -o ../bin/gosym .)
./bin/gosym -selftest
cp /repo/go.sum harness/go.sum
(cd harness && go build ./... && go test -count=1 ./... 2>&1 | tail -20)
# the engine's case-split accounting must report a split value that was assumed away
./bin/gosym -dir harness -pkg verifh/hval -fn SplitGapSelfTest -out /tmp/verif_gap_selftest.json >/dev/null 2>&1 || true
python3 - <<'PY'
import json, sys, os
r = json.load(open('/tmp/verif_gap_selftest.json'))
os.remove('/tmp/verif_gap_selftest.json')
if r.get('status') != 'undecided' or r.get('split_gaps') != ['z=2']:
    print('case-split accounting self-test FAILED:', r.get('status'), r.get('split_gaps')); sys.exit(1)
print('case-split accounting self-test ok')
PY
# positive control of the read-only-schema detector: a deliberate write into a frozen
# schema must be reported by the engine and must fail the native snapshot comparison
./bin/gosym -dir harness -pkg verifh/hval -fn FrozenWriteSelfTest -out /tmp/verif_fw_selftest.json >/dev/null 2>&1 || true
(cd harness && go build -o /tmp/verif_replay_selftest ./cmd/replay)
/tmp/verif_replay_selftest verifh/hval.FrozenWriteSelfTest > /tmp/verif_fw_native.txt 2>&1 || true
python3 - <<'PY'
import json, sys, os
r = json.load(open('/tmp/verif_fw_selftest.json'))
nat = open('/tmp/verif_fw_native.txt').read()
for f in ('/tmp/verif_fw_selftest.json', '/tmp/verif_fw_native.txt', '/tmp/verif_replay_selftest'):
    os.remove(f)
labels = [v['Label'] for v in r.get('violations') or []]
if labels != ['frozen-write'] or 'FAILED C11.schema-unchanged' not in nat:
    print('frozen-write positive control FAILED:', labels, nat[-200:]); sys.exit(1)
print('frozen-write positive control ok')
PY
# the engine's model of package reflect (used by C14) against descriptions pinned from the real
# package (harness test TestReflectExpectations keeps the pinned table equal to real reflect)
./bin/gosym -dir harness -pkg verifh/hval -fn ReflectModelSelfTest -out /tmp/verif_reflect_selftest.json >/dev/null 2>&1 || true
python3 - <<'PY'
import json, sys, os
r = json.load(open('/tmp/verif_reflect_selftest.json'))
os.remove('/tmp/verif_reflect_selftest.json')
if r.get('status') != 'ok' or 'H.reflect-model-checked' not in (r.get('covers') or {}):
    print('reflect model self-test FAILED:', r.get('status'), [v['Label'] for v in r.get('violations') or []], (r.get('error') or '')[:300]); sys.exit(1)
print('reflect model self-test ok')
PY
