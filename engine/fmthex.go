package main

import "strconv"

// hexSpecWidth: "%x" -> 1, "%04x" -> 4; other flags are not modelled.
func hexSpecWidth(spec string) (int, bool) {
	body := spec[1 : len(spec)-1]
	if body == "" {
		return 1, true
	}
	if body[0] != '0' {
		return 0, false
	}
	n, err := strconv.Atoi(body[1:])
	if err != nil || n < 1 || n > 16 {
		return 0, false
	}
	return n, true
}

// fmtHex: the hexadecimal text of v (taken as unsigned) with at least minW
// digits: all digits of the word, minus the leading zero digits beyond minW.
func fmtHex(v *Term, minW int, upper bool) *Str {
	nd := (int(v.w) + 3) / 4
	if minW > nd {
		nd = minW
	}
	v64 := v
	if v.w < 64 {
		v64 = ZExt(v, 64)
	}
	digs := make([]*Term, nd)
	for i := 0; i < nd; i++ { // i = 0: most significant
		sh := uint64((nd - 1 - i) * 4)
		nib := Trunc(LShr(v64, BV(sh, 64)), 8)
		nib = BAnd(nib, BV(0xF, 8))
		letter := BV('a'-10, 8)
		if upper {
			letter = BV('A'-10, 8)
		}
		digs[i] = Ite(Ult(nib, BV(10, 8)), Add(nib, BV('0', 8)), Add(nib, letter))
	}
	// drop k leading digits when they are all zero and at least minW remain
	res := strFromBytes(i64(minW), digs[nd-minW:])
	for k := nd - minW - 1; k >= 0; k-- {
		// some digit among the first k+1 .. means: digit k is the first non-zero one => keep nd-k digits
		firstNonZeroAtOrBefore := FF
		for j := 0; j <= k; j++ {
			firstNonZeroAtOrBefore = Or(firstNonZeroAtOrBefore, Not(Eq(digs[j], BV('0', 8))))
		}
		res = strIte(firstNonZeroAtOrBefore, strFromBytes(i64(nd-k), digs[k:]), res)
	}
	return res
}
