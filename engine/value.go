package main

import (
	"fmt"
	"go/types"
	"strings"

	"golang.org/x/tools/go/ssa"
)

type Value interface{}

type Ptr struct {
	obj  int // 0 = nil
	path []int
	sym  *Term // optional symbolic index (64-bit) applied after path
	post []int // path below the symbolic index
}

type StructV struct{ f []Value }
type ArrayV struct{ e []Value }
type SliceV struct{ obj, off, ln, cp int } // obj==0: nil slice
type IfaceV struct {
	t types.Type // nil: nil interface
	v Value
}
type MapV struct{ obj int } // 0 = nil map
type FuncV struct {
	fn   *ssa.Function
	env  []Value
	intr string // intrinsic name (bound method of an engine model etc.)
	recv Value
}
type TupleV []Value
type FloatV float64

// Iterator for range over map / string.
type IterV struct {
	isStr bool
	str   *Str
	obj   int // heap cell holding the position
	keys  []Value
	mobj  int
}

type Object struct {
	id     int
	cells  []Value
	stamp  int
	isMap  bool
	keys   []Value // map keys (insertion order); cells hold the values
	frozen bool
	elemT  types.Type
}

func (o *Object) clone(stamp int) *Object {
	c := &Object{id: o.id, stamp: stamp, isMap: o.isMap, elemT: o.elemT}
	c.cells = append([]Value(nil), o.cells...)
	if o.isMap {
		c.keys = append([]Value(nil), o.keys...)
	}
	return c
}

type allocKey struct {
	site interface{}
	tag  int
	seq  int
}

var (
	allocIDs  = map[allocKey]int{}
	nextObjID = 1
)

func objIDFor(k allocKey) int {
	if id, ok := allocIDs[k]; ok {
		return id
	}
	id := nextObjID
	nextObjID++
	allocIDs[k] = id
	return id
}

type siteKey struct {
	site interface{}
	tag  int
}

type State struct {
	pc    []*Term
	heap  map[int]*Object
	seq   map[siteKey]int
	stamp int
	// bookkeeping carried along a path
	covers  map[string]bool
	calls   map[string]int   // counters (verifrt.Count)
	dom     map[*Term]uint64 // remaining values of small-range variables (derived from pc)
	pending []knownRec
	pknown  []knownRec
	watch   []watchRec
}

var stampCounter = 1

func newStamp() int { stampCounter++; return stampCounter }

var baseHeap = map[int]*Object{}

func NewState() *State {
	return &State{heap: map[int]*Object{}, seq: map[siteKey]int{}, stamp: newStamp(), covers: map[string]bool{}, calls: map[string]int{}}
}

func (s *State) Fork() *State {
	n := &State{pc: s.pc[:len(s.pc):len(s.pc)], stamp: newStamp()}
	n.heap = make(map[int]*Object, len(s.heap)+4)
	for k, v := range s.heap {
		n.heap[k] = v
	}
	n.seq = make(map[siteKey]int, len(s.seq)+4)
	for k, v := range s.seq {
		n.seq[k] = v
	}
	n.covers = make(map[string]bool, len(s.covers))
	for k, v := range s.covers {
		n.covers[k] = v
	}
	n.calls = make(map[string]int, len(s.calls))
	for k, v := range s.calls {
		n.calls[k] = v
	}
	n.pending, n.pknown, n.watch = s.pending, s.pknown, s.watch
	if len(s.dom) > 0 {
		n.dom = make(map[*Term]uint64, len(s.dom))
		for k, v := range s.dom {
			n.dom[k] = v
		}
	}
	s.stamp = newStamp() // the parent can no longer write shared objects in place
	return n
}

// decide evaluates a condition against the variable domains: 1 always true,
// 0 always false, -1 undetermined.
func (s *State) decide(c *Term) int {
	v := singleVar(c)
	if v == nil || v == multiVar {
		return -1
	}
	full, ok := fullDom(v)
	if !ok {
		return -1
	}
	dom, has := s.dom[v]
	if !has {
		dom = full
	}
	m := domMask(c, v, dom)
	if m == dom {
		return 1
	}
	if m == 0 {
		return 0
	}
	return -1
}

func (s *State) refine(c *Term) {
	v := singleVar(c)
	if v == nil || v == multiVar {
		return
	}
	full, ok := fullDom(v)
	if !ok {
		return
	}
	dom, has := s.dom[v]
	if !has {
		dom = full
	}
	if s.dom == nil {
		s.dom = map[*Term]uint64{}
	}
	s.dom[v] = domMask(c, v, dom)
}

func (s *State) Assume(c *Term) {
	if c == TT {
		return
	}
	s.refine(c)
	// x = k makes earlier facts x != k' (k' != k) redundant
	if c.op == OpEq && c.a[0].w > 0 && (c.a[0].op == OpConst || c.a[1].op == OpConst) {
		x, k := c.a[0], c.a[1]
		if x.op == OpConst {
			x, k = k, x
		}
		var out []*Term
		dropped := false
		for _, p := range s.pc {
			if p.op == OpNot && p.a[0].op == OpEq {
				y, k2 := p.a[0].a[0], p.a[0].a[1]
				if y.op == OpConst {
					y, k2 = k2, y
				}
				if y == x && k2.op == OpConst && k2 != k {
					dropped = true
					continue
				}
			}
			out = append(out, p)
		}
		if dropped {
			s.pc = append(out, c)
			return
		}
	}
	s.pc = append(s.pc[:len(s.pc):len(s.pc)], c)
}

func (s *State) obj(id int) *Object {
	if o, ok := s.heap[id]; ok {
		return o
	}
	if o, ok := baseHeap[id]; ok {
		return o
	}
	panic(fmt.Sprintf("dangling object %d", id))
}

var frozenWrite func(st *State, o *Object)

func (s *State) wobj(id int) *Object {
	if o, ok := s.heap[id]; ok {
		if o.stamp == s.stamp {
			return o
		}
		c := o.clone(s.stamp)
		s.heap[id] = c
		return c
	}
	o, ok := baseHeap[id]
	if !ok {
		panic(fmt.Sprintf("dangling object %d", id))
	}
	if o.frozen && frozenWrite != nil {
		frozenWrite(s, o)
	}
	c := o.clone(s.stamp)
	c.frozen = false
	s.heap[id] = c
	return c
}

func (s *State) alloc(site interface{}, tag int, cells []Value, elemT types.Type) *Object {
	sk := siteKey{site, tag}
	n := s.seq[sk]
	s.seq[sk] = n + 1
	id := objIDFor(allocKey{site, tag, n})
	o := &Object{id: id, cells: cells, stamp: s.stamp, elemT: elemT}
	s.heap[id] = o
	return o
}

// ---------- zero values ----------

func intWidth(t types.Type) (w uint8, signed bool, ok bool) {
	b, isB := t.Underlying().(*types.Basic)
	if !isB {
		return 0, false, false
	}
	switch b.Kind() {
	case types.Int8:
		return 8, true, true
	case types.Int16:
		return 16, true, true
	case types.Int32, types.UntypedRune:
		return 32, true, true
	case types.Int64, types.Int, types.UntypedInt:
		return 64, true, true
	case types.Uint8:
		return 8, false, true
	case types.Uint16:
		return 16, false, true
	case types.Uint32:
		return 32, false, true
	case types.Uint64, types.Uint, types.Uintptr:
		return 64, false, true
	}
	return 0, false, false
}

func isFloat(t types.Type) bool {
	b, ok := t.Underlying().(*types.Basic)
	return ok && b.Info()&types.IsFloat != 0
}

func isString(t types.Type) bool {
	b, ok := t.Underlying().(*types.Basic)
	return ok && b.Info()&types.IsString != 0
}

func isBool(t types.Type) bool {
	b, ok := t.Underlying().(*types.Basic)
	return ok && b.Info()&types.IsBoolean != 0
}

func zero(t types.Type) Value {
	switch u := t.Underlying().(type) {
	case *types.Basic:
		if w, _, ok := intWidth(t); ok {
			return BV(0, w)
		}
		switch {
		case u.Info()&types.IsBoolean != 0:
			return FF
		case u.Info()&types.IsString != 0:
			return emptyStr
		case u.Info()&types.IsFloat != 0:
			return FloatV(0)
		case u.Kind() == types.UnsafePointer:
			return Ptr{}
		case u.Kind() == types.UntypedNil:
			return Ptr{}
		}
	case *types.Pointer:
		return Ptr{}
	case *types.Struct:
		f := make([]Value, u.NumFields())
		for i := range f {
			f[i] = zero(u.Field(i).Type())
		}
		return &StructV{f}
	case *types.Array:
		e := make([]Value, u.Len())
		z := zero(u.Elem())
		for i := range e {
			e[i] = z
		}
		return &ArrayV{e}
	case *types.Slice:
		return SliceV{}
	case *types.Map:
		return MapV{}
	case *types.Interface:
		return IfaceV{}
	case *types.Signature:
		return (*FuncV)(nil)
	case *types.Chan:
		return Ptr{}
	case *types.Tuple:
		r := make(TupleV, u.Len())
		for i := range r {
			r[i] = zero(u.At(i).Type())
		}
		return r
	}
	panic("zero: unsupported type " + t.String())
}

// ---------- merging ----------

func pathEq(a, b []int) bool {
	if len(a) != len(b) {
		return false
	}
	for i := range a {
		if a[i] != b[i] {
			return false
		}
	}
	return true
}

// mergeVal returns ite(g, a, b) when representable.
func mergeVal(g *Term, a, b Value) (Value, bool) {
	switch x := a.(type) {
	case nil:
		if b == nil {
			return nil, true
		}
		return nil, false
	case *Term:
		y, ok := b.(*Term)
		if !ok || x.w != y.w {
			return nil, false
		}
		return Ite(g, x, y), true
	case *Str:
		y, ok := b.(*Str)
		if !ok {
			return nil, false
		}
		return strIte(g, x, y), true
	case FloatV:
		y, ok := b.(FloatV)
		return x, ok && (x == y || (x != x && y != y))
	case Ptr:
		y, ok := b.(Ptr)
		if ok && x.obj == y.obj && pathEq(x.path, y.path) && pathEq(x.post, y.post) {
			if x.sym == y.sym {
				return x, true
			}
			if x.sym != nil && y.sym != nil {
				return Ptr{x.obj, x.path, Ite(g, x.sym, y.sym), x.post}, true
			}
		}
		return nil, false
	case *StructV:
		y, ok := b.(*StructV)
		if !ok || len(x.f) != len(y.f) {
			return nil, false
		}
		if x == y {
			return x, true
		}
		var out []Value
		for i := range x.f {
			m, ok := mergeVal(g, x.f[i], y.f[i])
			if !ok {
				return nil, false
			}
			if out == nil && !sameVal(m, x.f[i]) {
				out = append([]Value(nil), x.f...)
			}
			if out != nil {
				out[i] = m
			}
		}
		if out == nil {
			return x, true
		}
		return &StructV{out}, true
	case *ArrayV:
		y, ok := b.(*ArrayV)
		if !ok || len(x.e) != len(y.e) {
			return nil, false
		}
		if x == y {
			return x, true
		}
		out := make([]Value, len(x.e))
		for i := range x.e {
			m, ok := mergeVal(g, x.e[i], y.e[i])
			if !ok {
				return nil, false
			}
			out[i] = m
		}
		return &ArrayV{out}, true
	case SliceV:
		y, ok := b.(SliceV)
		return x, ok && x == y
	case MapV:
		y, ok := b.(MapV)
		return x, ok && x == y
	case IfaceV:
		y, ok := b.(IfaceV)
		if !ok {
			return nil, false
		}
		if x.t == nil || y.t == nil {
			return x, x.t == nil && y.t == nil
		}
		if !types.Identical(x.t, y.t) {
			return nil, false
		}
		m, ok := mergeVal(g, x.v, y.v)
		return IfaceV{x.t, m}, ok
	case *FuncV:
		y, ok := b.(*FuncV)
		if !ok {
			return nil, false
		}
		if x == y {
			return x, true
		}
		if x == nil || y == nil || x.fn != y.fn || x.intr != y.intr || len(x.env) != len(y.env) {
			return nil, false
		}
		env := make([]Value, len(x.env))
		for i := range env {
			m, ok := mergeVal(g, x.env[i], y.env[i])
			if !ok {
				return nil, false
			}
			env[i] = m
		}
		var recv Value
		if x.recv != nil || y.recv != nil {
			m, ok := mergeVal(g, x.recv, y.recv)
			if !ok {
				return nil, false
			}
			recv = m
		}
		return &FuncV{x.fn, env, x.intr, recv}, true
	case TupleV:
		y, ok := b.(TupleV)
		if !ok || len(x) != len(y) {
			return nil, false
		}
		out := make(TupleV, len(x))
		for i := range x {
			m, ok := mergeVal(g, x[i], y[i])
			if !ok {
				return nil, false
			}
			out[i] = m
		}
		return out, true
	case *IterV:
		y, ok := b.(*IterV)
		return x, ok && x == y
	}
	return nil, false
}

func sameVal(a, b Value) bool {
	switch x := a.(type) {
	case *Term:
		y, ok := b.(*Term)
		return ok && x == y
	case *Str:
		y, ok := b.(*Str)
		return ok && (x == y || (x.isC && y.isC && x.c == y.c))
	case *StructV:
		y, ok := b.(*StructV)
		return ok && x == y
	case *ArrayV:
		y, ok := b.(*ArrayV)
		return ok && x == y
	case Ptr:
		y, ok := b.(Ptr)
		return ok && x.obj == y.obj && x.sym == y.sym && pathEq(x.path, y.path) && pathEq(x.post, y.post)
	case SliceV:
		y, ok := b.(SliceV)
		return ok && x == y
	case MapV:
		y, ok := b.(MapV)
		return ok && x == y
	case nil:
		return b == nil
	case *FuncV:
		y, ok := b.(*FuncV)
		return ok && x == y
	case FloatV:
		y, ok := b.(FloatV)
		return ok && x == y
	case IfaceV:
		y, ok := b.(IfaceV)
		return ok && x.t == y.t && sameVal(x.v, y.v)
	}
	return false
}

// mergePC computes the merged path condition and the guard selecting the
// first state.
func mergePC(a, b []*Term) (pc []*Term, g *Term) {
	i := 0
	for i < len(a) && i < len(b) && a[i] == b[i] {
		i++
	}
	da, db := AndAll(a[i:]...), AndAll(b[i:]...)
	pc = append([]*Term(nil), a[:i]...)
	d := Or(da, db)
	if d != TT {
		pc = append(pc, d)
	}
	return pc, da
}

// mergeable mirrors mergeVal without building anything.
func mergeable(a, b Value) bool {
	switch x := a.(type) {
	case nil:
		return b == nil
	case *Term:
		y, ok := b.(*Term)
		return ok && x.w == y.w
	case *Str:
		_, ok := b.(*Str)
		return ok
	case FloatV:
		y, ok := b.(FloatV)
		return ok && (x == y || (x != x && y != y))
	case Ptr:
		y, ok := b.(Ptr)
		return ok && x.obj == y.obj && pathEq(x.path, y.path) && pathEq(x.post, y.post) && (x.sym == y.sym || (x.sym != nil && y.sym != nil))
	case *StructV:
		y, ok := b.(*StructV)
		if !ok || len(x.f) != len(y.f) {
			return false
		}
		if x == y {
			return true
		}
		for i := range x.f {
			if !mergeable(x.f[i], y.f[i]) {
				return false
			}
		}
		return true
	case *ArrayV:
		y, ok := b.(*ArrayV)
		if !ok || len(x.e) != len(y.e) {
			return false
		}
		if x == y {
			return true
		}
		for i := range x.e {
			if !mergeable(x.e[i], y.e[i]) {
				return false
			}
		}
		return true
	case SliceV:
		y, ok := b.(SliceV)
		return ok && x == y
	case MapV:
		y, ok := b.(MapV)
		return ok && x == y
	case IfaceV:
		y, ok := b.(IfaceV)
		if !ok {
			return false
		}
		if x.t == nil || y.t == nil {
			return x.t == nil && y.t == nil
		}
		return types.Identical(x.t, y.t) && mergeable(x.v, y.v)
	case *FuncV:
		y, ok := b.(*FuncV)
		if !ok {
			return false
		}
		if x == y {
			return true
		}
		if x == nil || y == nil || x.fn != y.fn || x.intr != y.intr || len(x.env) != len(y.env) {
			return false
		}
		for i := range x.env {
			if !mergeable(x.env[i], y.env[i]) {
				return false
			}
		}
		if x.recv != nil || y.recv != nil {
			return mergeable(x.recv, y.recv)
		}
		return true
	case TupleV:
		y, ok := b.(TupleV)
		if !ok || len(x) != len(y) {
			return false
		}
		for i := range x {
			if !mergeable(x[i], y[i]) {
				return false
			}
		}
		return true
	case *IterV:
		y, ok := b.(*IterV)
		return ok && x == y
	}
	return false
}

func objMergeable(a, b *Object) bool {
	if a == b {
		return true
	}
	if a.isMap != b.isMap || len(a.cells) != len(b.cells) {
		return false
	}
	if a.isMap {
		for i := range a.keys {
			if !sameVal(a.keys[i], b.keys[i]) {
				return false
			}
		}
	}
	for i := range a.cells {
		if !mergeable(a.cells[i], b.cells[i]) {
			return false
		}
	}
	return true
}

// statesMergeable is the cheap pre-check of tryMerge.
func statesMergeable(sa, sb *State, ra, rb []Value, live []bool) bool {
	for i := range ra {
		if live != nil && !live[i] {
			continue
		}
		if ra[i] == nil && rb[i] == nil {
			continue
		}
		if !mergeable(ra[i], rb[i]) {
			return false
		}
	}
	for id, oa := range sa.heap {
		ob, inB := sb.heap[id]
		if !inB {
			base, ok := baseHeap[id]
			if !ok {
				continue
			}
			ob = base
		}
		if !objMergeable(oa, ob) {
			return false
		}
	}
	for id, ob := range sb.heap {
		if _, inA := sa.heap[id]; inA {
			continue
		}
		if base, ok := baseHeap[id]; ok && !objMergeable(base, ob) {
			return false
		}
	}
	return true
}

// tryMerge merges b into a (states and register files). Returns nil if not
// mergeable. live tells which registers matter.
func tryMerge(sa, sb *State, ra, rb []Value, live []bool) (*State, []Value) {
	if !statesMergeable(sa, sb, ra, rb, live) {
		return nil, nil
	}
	pc, g := mergePC(sa.pc, sb.pc)
	regs := make([]Value, len(ra))
	for i := range ra {
		if live != nil && !live[i] {
			continue
		}
		if ra[i] == nil && rb[i] == nil {
			continue
		}
		m, ok := mergeVal(g, ra[i], rb[i])
		if !ok {
			return nil, nil
		}
		regs[i] = m
	}
	// heap
	merged := map[int]*Object{}
	stamp := newStamp()
	for id, oa := range sa.heap {
		ob, inB := sb.heap[id]
		if !inB {
			if base, ok := baseHeap[id]; ok {
				ob = base
			} else {
				merged[id] = oa
				continue
			}
		}
		if oa == ob {
			merged[id] = oa
			continue
		}
		mo, ok := mergeObj(g, oa, ob, stamp)
		if !ok {
			return nil, nil
		}
		merged[id] = mo
	}
	for id, ob := range sb.heap {
		if _, inA := sa.heap[id]; inA {
			continue
		}
		if base, ok := baseHeap[id]; ok {
			mo, ok := mergeObj(g, base, ob, stamp)
			if !ok {
				return nil, nil
			}
			merged[id] = mo
			continue
		}
		merged[id] = ob
	}
	ns := &State{pc: pc, heap: merged, stamp: stamp, seq: map[siteKey]int{}, covers: map[string]bool{}, calls: map[string]int{}}
	if len(sa.watch) == len(sb.watch) {
		for i := range sa.watch {
			w := sa.watch[i]
			if w.t != nil && sb.watch[i].t != nil {
				w.t = Ite(g, w.t, sb.watch[i].t)
			} else if w.s != nil && sb.watch[i].s != nil {
				w.s = strIte(g, w.s, sb.watch[i].s)
			}
			ns.watch = append(ns.watch, w)
		}
	}
	if len(sa.dom) > 0 && len(sb.dom) > 0 {
		ns.dom = map[*Term]uint64{}
		for k, v := range sa.dom {
			if w, ok := sb.dom[k]; ok {
				ns.dom[k] = v | w
			}
		}
	}
	ns.pending = mergeKnown(g, sa.pending, sb.pending)
	ns.pknown = mergeKnown(g, sa.pknown, sb.pknown)
	for k, v := range sa.seq {
		ns.seq[k] = v
	}
	for k, v := range sb.seq {
		if v > ns.seq[k] {
			ns.seq[k] = v
		}
	}
	for k := range sa.covers {
		ns.covers[k] = true
	}
	for k := range sb.covers {
		ns.covers[k] = true
	}
	for k, v := range sa.calls {
		ns.calls[k] = v
	}
	for k, v := range sb.calls {
		if v > ns.calls[k] {
			ns.calls[k] = v
		}
	}
	return ns, regs
}

func mergeObj(g *Term, a, b *Object, stamp int) (*Object, bool) {
	if a.isMap != b.isMap || len(a.cells) != len(b.cells) {
		return nil, false
	}
	if a.isMap {
		for i := range a.keys {
			if !sameVal(a.keys[i], b.keys[i]) {
				return nil, false
			}
		}
	}
	o := &Object{id: a.id, stamp: stamp, isMap: a.isMap, keys: a.keys, elemT: a.elemT}
	o.cells = make([]Value, len(a.cells))
	for i := range a.cells {
		m, ok := mergeVal(g, a.cells[i], b.cells[i])
		if !ok {
			return nil, false
		}
		o.cells[i] = m
	}
	return o, true
}

// ---------- debugging ----------

func showVal(v Value) string {
	switch x := v.(type) {
	case nil:
		return "<nil>"
	case *Term:
		return x.String()
	case *Str:
		return x.String()
	case Ptr:
		if x.obj == 0 {
			return "nil"
		}
		return fmt.Sprintf("&o%d%v", x.obj, x.path)
	case *StructV:
		var p []string
		for _, f := range x.f {
			p = append(p, showVal(f))
		}
		return "{" + strings.Join(p, ", ") + "}"
	case IfaceV:
		if x.t == nil {
			return "iface(nil)"
		}
		return "iface(" + x.t.String() + ":" + showVal(x.v) + ")"
	case TupleV:
		var p []string
		for _, f := range x {
			p = append(p, showVal(f))
		}
		return "(" + strings.Join(p, ", ") + ")"
	case SliceV:
		return fmt.Sprintf("slice(o%d,%d,%d,%d)", x.obj, x.off, x.ln, x.cp)
	}
	return fmt.Sprintf("%T", v)
}
