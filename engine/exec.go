package main

import (
	"fmt"
	"go/constant"
	"go/token"
	"go/types"
	"os"
	"strings"

	"golang.org/x/tools/go/packages"
	"golang.org/x/tools/go/ssa"
)

type PanicInfo struct {
	kind string // "index", "nil", "slice", "div", "typeassert", "explicit", "unwind", "depth", "unsupported"
	msg  string
	pos  token.Pos
	val  Value
}

type Outcome struct {
	st  *State
	ret Value
	pan *PanicInfo
}

type deferRec struct {
	fn   Value
	args []Value
	call *ssa.CallCommon
}

type item struct {
	st      *State
	regs    []Value
	blk     *ssa.BasicBlock
	idx     int
	iters   []int
	pcEntry []int
	defers  []deferRec
}

type frame struct {
	fi    *fnInfo
	depth int
	work  []*item
	outs  []Outcome
}

type Engine struct {
	prog    *ssa.Program
	solver  *Solver
	stubs   map[string]Value // full function name -> replacement FuncV
	globals map[*ssa.Global]int

	feas      bool // check feasibility at symbolic forks
	unwind    int
	maxDepth  int
	mergeOn   bool
	steps     int64
	forks     int64
	merges    int64
	mergeFail int64
	statesN   int64
	funcsSeen map[string]bool
	curFn     []*ssa.Function

	violations []*Violation
	knownHits  []*Violation
	covers     map[string]map[string]uint64 // label -> witness model
	coverSeen  map[string]bool
	undecided  []string
	notes      map[string]int64
	frozen     bool
	frozenHits []string
	panicsOK   bool
	stack      []string
	violSeen   map[string]bool
	asserts    int64
	liftFns    map[string]bool
	mergeFns   map[string]bool // functions inside which state merging is switched on (verifrt.MergeIn)
	// mapOrderPolicy: order in which `range` visits a map (Go leaves it unspecified):
	// 0 insertion order, 1 reversed, 2 rotated by one, 3 odd positions first
	mapOrderPolicy int
	realQuote      bool
	reflValT       types.Type
	reflRtypePtr   types.Type
	initMode       bool
	curInit        *ssa.Function
	pkgs           []*packages.Package
}

type Violation struct {
	Label string
	Known string
	Model map[string]uint64
	Pos   string
	Msg   string
}

func NewEngine(prog *ssa.Program) *Engine {
	return &Engine{prog: prog, stubs: map[string]Value{}, globals: map[*ssa.Global]int{}, feas: true, unwind: 64, maxDepth: 200,
		mergeOn: true, liftFns: map[string]bool{}, mergeFns: map[string]bool{}, violSeen: map[string]bool{}, funcsSeen: map[string]bool{}, covers: map[string]map[string]uint64{}, coverSeen: map[string]bool{}, notes: map[string]int64{}}
}

// concretizeFns: callees that need concrete strings; a symbolic choice among
// constants is split into its options before the call.
var concretizeFns = map[string]bool{
	"github.com/agnivade/levenshtein.ComputeDistance":          true,
	"github.com/vektah/gqlparser/v2/validator.lexicalDistance": true,
	"github.com/vektah/gqlparser/v2/validator.calcThreshold":   true,
	"github.com/vektah/gqlparser/v2/validator.SuggestionList":  true,
	"strconv.ParseInt": true, "strconv.ParseFloat": true, "strconv.ParseBool": true, "strconv.ParseUint": true,
}

type unsupported struct{ msg string }

func (e *Engine) unsupported(format string, args ...interface{}) {
	panic(unsupported{fmt.Sprintf(format, args...)})
}

func (e *Engine) posStr(p token.Pos) string {
	if !p.IsValid() {
		return "?"
	}
	ps := e.prog.Fset.Position(p)
	return fmt.Sprintf("%s:%d", ps.Filename, ps.Line)
}

// ---------- items ordering ----------

func (f *frame) less(a, b *item) bool {
	ca, cb := f.fi.loopChain(a.blk), f.fi.loopChain(b.blk)
	for i := 0; i < len(ca) && i < len(cb) && ca[i] == cb[i]; i++ {
		if a.iters[i] != b.iters[i] {
			return a.iters[i] < b.iters[i]
		}
	}
	pa, pb := f.fi.pos[a.blk.Index], f.fi.pos[b.blk.Index]
	if pa != pb {
		return pa < pb
	}
	return a.idx < b.idx
}

func sameKey(a, b *item) bool {
	if a.blk != b.blk || a.idx != b.idx || len(a.iters) != len(b.iters) {
		return false
	}
	for i := range a.iters {
		if a.iters[i] != b.iters[i] {
			return false
		}
	}
	return len(a.defers) == len(b.defers)
}

// ---------- function calls ----------

func (e *Engine) callFunction(fn *ssa.Function, args []Value, env []Value, st *State, depth int, site ssa.Instruction) []Outcome {
	name := fn.String()
	if e.initMode && fn != e.curInit && fn.Pkg != nil && fn == fn.Pkg.Func("init") {
		return []Outcome{{st: st}}
	}
	if sv, ok := e.stubs[name]; ok && st.calls["unstub:"+name] == 0 {
		fv := sv.(*FuncV)
		return e.callFunction(fv.fn, args, fv.env, st, depth, site)
	}
	if concretizeFns[name] {
		for ai, a := range args {
			sa, ok := a.(*Str)
			if !ok || sa.isC || sa.sel == nil {
				continue
			}
			var outs []Outcome
			for k, o := range sa.opts {
				c := Eq(sa.sel, BV(uint64(k), sa.sel.w))
				if c == FF {
					continue
				}
				if d := st.decide(c); d == 0 {
					continue
				} else if d < 0 {
					if e.solver.Check(append(append([]*Term(nil), st.pc...), c)) == ResUnsat {
						continue
					}
				}
				ns := st.Fork()
				ns.Assume(c)
				na := append([]Value(nil), args...)
				na[ai] = strConst(o)
				outs = append(outs, e.callFunction(fn, na, env, ns, depth, site)...)
			}
			return outs
		}
	}
	if e.liftFns[name] && len(args) == 1 {
		if t, ok := args[0].(*Term); ok && t.op != OpConst && t.leaves > 1 && t.leaves <= 64 {
			vs, _ := getVS(t)
			var acc Value
			for i := len(vs) - 1; i >= 0; i-- {
				outs := e.callFunction(fn, []Value{BV(vs[i].val, t.w)}, env, st, depth, site)
				if len(outs) != 1 || outs[0].pan != nil {
					e.unsupported("lifted call %s: %d outcomes", name, len(outs))
				}
				st = outs[0].st
				if acc == nil {
					acc = outs[0].ret
					continue
				}
				m, ok := mergeVal(vs[i].g, outs[0].ret, acc)
				if !ok {
					e.unsupported("lifted call %s: unmergeable results", name)
				}
				acc = m
			}
			return []Outcome{{st: st, ret: acc}}
		}
	}
	if outs, ok := e.intrinsic(fn, name, args, st, depth, site); ok {
		return outs
	}
	if fn.Blocks == nil {
		e.unsupported("call to function without body: %s", name)
	}
	if depth > e.maxDepth {
		if len(st.pc) > 0 && e.solver.Check(st.pc) == ResUnsat {
			return nil
		}
		return []Outcome{{st: st, pan: &PanicInfo{kind: "depth", msg: "call depth bound exceeded in " + name, pos: fn.Pos()}}}
	}
	if !e.funcsSeen[name] {
		e.funcsSeen[name] = true
	}
	fi := getFnInfo(fn)
	regs := make([]Value, fi.nregs)
	if len(args) != len(fn.Params) {
		e.unsupported("arity mismatch calling %s: %d args for %d params", name, len(args), len(fn.Params))
	}
	copy(regs, args)
	copy(regs[len(fn.Params):], env)
	f := &frame{fi: fi, depth: depth}
	first := &item{st: st, regs: regs, blk: fn.Blocks[0]}
	f.work = append(f.work, first)
	e.stack = append(e.stack, name)
	if e.mergeFns[name] && !e.mergeOn {
		// merging scoped to this call: the callee's paths re-join at its joins and at its return
		e.mergeOn = true
		e.runFrame(f)
		e.stack = e.stack[:len(e.stack)-1]
		outs := e.mergeOutcomes(f.outs)
		e.mergeOn = false
		return outs
	}
	e.runFrame(f)
	e.stack = e.stack[:len(e.stack)-1]
	return e.mergeOutcomes(f.outs)
}

func (e *Engine) mergeOutcomes(outs []Outcome) []Outcome {
	if len(outs) <= 1 || !e.mergeOn {
		return outs
	}
	var res []Outcome
	for _, o := range outs {
		merged := false
		if o.pan == nil {
			for i := range res {
				r := &res[i]
				if r.pan != nil {
					continue
				}
				ns, regs := tryMerge(r.st, o.st, []Value{r.ret}, []Value{o.ret}, nil)
				if ns != nil {
					r.st, r.ret = ns, regs[0]
					merged = true
					e.merges++
					break
				}
				e.mergeFail++
			}
		}
		if !merged {
			res = append(res, o)
		}
	}
	return res
}

func (e *Engine) runFrame(f *frame) {
	for len(f.work) > 0 {
		// pick the minimal item (without merging the order is irrelevant: depth first)
		mi := len(f.work) - 1
		if e.mergeOn {
			mi = 0
			for i := 1; i < len(f.work); i++ {
				if f.less(f.work[i], f.work[mi]) {
					mi = i
				}
			}
		}
		it := f.work[mi]
		f.work[mi] = f.work[len(f.work)-1]
		f.work = f.work[:len(f.work)-1]
		if len(f.work) > 0 && e.mergeOn {
			// gather items with the same key and merge what can be merged
			group := []*item{it}
			rest := f.work[:0]
			for _, o := range f.work {
				if sameKey(o, it) {
					group = append(group, o)
				} else {
					rest = append(rest, o)
				}
			}
			f.work = rest
			if len(group) > 1 {
				group = e.mergeGroup(f, group)
				it = group[0]
				// the others go back; they will be picked next (same key) but
				// cannot merge with each other any more
				for _, o := range group[1:] {
					e.runItem(f, o)
				}
			}
		}
		e.runItem(f, it)
	}
}

func (e *Engine) mergeGroup(f *frame, group []*item) []*item {
	var live []bool
	if group[0].idx == 0 {
		live = f.fi.liveIn[group[0].blk.Index]
	} else {
		live = f.fi.liveAll[group[0].blk.Index]
	}
	var res []*item
	for _, o := range group {
		merged := false
		start := 0
		if len(res) > 6 {
			start = len(res) - 6
		}
		for _, r := range res[start:] {
			if !sameDefers(r.defers, o.defers) {
				continue
			}
			ns, regs := tryMerge(r.st, o.st, r.regs, o.regs, live)
			if ns != nil {
				r.st, r.regs = ns, regs
				for i := range r.pcEntry {
					if o.pcEntry[i] < r.pcEntry[i] {
						r.pcEntry[i] = o.pcEntry[i]
					}
					if r.pcEntry[i] > len(ns.pc) {
						r.pcEntry[i] = len(ns.pc)
					}
				}
				merged = true
				e.merges++
				break
			}
			e.mergeFail++
		}
		if !merged {
			res = append(res, o)
		}
	}
	return res
}

func sameDefers(a, b []deferRec) bool {
	if len(a) != len(b) {
		return false
	}
	for i := range a {
		if !sameVal(a[i].fn, b[i].fn) || len(a[i].args) != len(b[i].args) {
			return false
		}
		for j := range a[i].args {
			if !sameVal(a[i].args[j], b[i].args[j]) {
				return false
			}
		}
	}
	return true
}

// goTo pushes the successor item along edge it.blk -> succ.
func (e *Engine) goTo(f *frame, it *item, succ *ssa.BasicBlock, reuse bool) {
	fi := f.fi
	from := it.blk
	// phis
	var phiVals []Value
	var phiRegs []int
	predIdx := -1
	for i, p := range succ.Preds {
		if p == from {
			predIdx = i
			break
		}
	}
	for _, ins := range succ.Instrs {
		phi, ok := ins.(*ssa.Phi)
		if !ok {
			break
		}
		phiVals = append(phiVals, e.get(fi, it.regs, phi.Edges[predIdx]))
		phiRegs = append(phiRegs, fi.regOf[phi])
	}
	ni := it
	if !reuse {
		ni = &item{st: it.st, regs: append([]Value(nil), it.regs...), defers: it.defers}
	}
	for i, r := range phiRegs {
		ni.regs[r] = phiVals[i]
	}
	// loop bookkeeping
	newChain := fi.loopChain(succ)
	oldChain := fi.loopChain(from)
	iters := make([]int, len(newChain))
	pcEntry := make([]int, len(newChain))
	for i, l := range newChain {
		if i < len(oldChain) && oldChain[i] == l {
			iters[i] = it.iters[i]
			pcEntry[i] = it.pcEntry[i]
		} else {
			iters[i] = 0
			pcEntry[i] = len(it.st.pc)
		}
	}
	if n := len(newChain); n > 0 && newChain[n-1].header == succ && n <= len(oldChain) && oldChain[n-1] == newChain[n-1] {
		// back edge
		iters[n-1]++
		symbolic := len(ni.st.pc) != pcEntry[n-1]
		if symbolic && iters[n-1] > e.unwind {
			if e.solver.Check(ni.st.pc) != ResUnsat {
				f.outs = append(f.outs, Outcome{st: ni.st, pan: &PanicInfo{kind: "unwind", msg: fmt.Sprintf("loop unwinding bound %d exceeded in %s", e.unwind, fi.fn), pos: succ.Instrs[0].Pos()}})
			}
			return
		}
		if iters[n-1] > 2000000 {
			e.unsupported("concrete loop ran 2e6 iterations in %s", fi.fn)
		}
	}
	ni.blk, ni.idx, ni.iters, ni.pcEntry = succ, 0, iters, pcEntry
	for _, ins := range succ.Instrs {
		if _, ok := ins.(*ssa.Phi); ok {
			ni.idx++
		} else {
			break
		}
	}
	f.work = append(f.work, ni)
}

func (e *Engine) get(fi *fnInfo, regs []Value, v ssa.Value) Value {
	if r, ok := fi.regOf[v]; ok {
		return regs[r]
	}
	switch x := v.(type) {
	case *ssa.Const:
		return e.constVal(x)
	case *ssa.Function:
		return &FuncV{fn: x}
	case *ssa.Global:
		return Ptr{obj: e.globalObj(x), path: globalPath(x)}
	case *ssa.Builtin:
		return &FuncV{intr: "builtin:" + x.Name()}
	}
	e.unsupported("operand %T %v", v, v)
	return nil
}

func globalPath(g *ssa.Global) []int {
	if _, ok := g.Type().(*types.Pointer).Elem().Underlying().(*types.Array); ok {
		return nil
	}
	return []int{0}
}

func (e *Engine) globalObj(g *ssa.Global) int {
	if id, ok := e.globals[g]; ok {
		return id
	}
	id := objIDFor(allocKey{g, 0, 0})
	t := g.Type().(*types.Pointer).Elem()
	o := &Object{id: id, stamp: -1, elemT: t}
	if at, ok := t.Underlying().(*types.Array); ok {
		o.cells = zero(at).(*ArrayV).e
	} else {
		o.cells = []Value{zero(t)}
	}
	baseHeap[id] = o
	e.globals[g] = id
	return id
}

func (e *Engine) constVal(c *ssa.Const) Value {
	t := c.Type()
	if c.Value == nil {
		return zero(t)
	}
	if w, _, ok := intWidth(t); ok {
		if i, exact := constant.Int64Val(constant.ToInt(c.Value)); exact {
			return BVs(i, w)
		}
		u, _ := constant.Uint64Val(constant.ToInt(c.Value))
		return BV(u, w)
	}
	switch {
	case isBool(t):
		return Bool(constant.BoolVal(c.Value))
	case isString(t):
		return strConst(constant.StringVal(c.Value))
	case isFloat(t):
		f, _ := constant.Float64Val(c.Value)
		return FloatV(f)
	}
	e.unsupported("constant of type %s", t)
	return nil
}

// ---------- heap access ----------

func (e *Engine) load(st *State, p Ptr) Value {
	o := st.obj(p.obj)
	if p.sym != nil {
		return e.loadSym(st, p, o)
	}
	if len(p.path) == 0 {
		return &ArrayV{append([]Value(nil), o.cells...)}
	}
	v := o.cells[p.path[0]]
	for _, i := range p.path[1:] {
		switch x := v.(type) {
		case *StructV:
			v = x.f[i]
		case *ArrayV:
			v = x.e[i]
		default:
			panic(fmt.Sprintf("load: bad path into %T", v))
		}
	}
	return v
}

func navigate(v Value, path []int) Value {
	for _, i := range path {
		switch x := v.(type) {
		case *StructV:
			v = x.f[i]
		case *ArrayV:
			v = x.e[i]
		default:
			panic(fmt.Sprintf("navigate: bad path into %T", v))
		}
	}
	return v
}

func (e *Engine) loadSym(st *State, p Ptr, o *Object) Value {
	// container elements
	var elems []Value
	if len(p.path) == 0 {
		elems = o.cells
	} else {
		c := e.load(st, Ptr{obj: p.obj, path: p.path})
		elems = c.(*ArrayV).e
	}
	lo, hi := int(p.sym.lo), len(elems)-1
	if p.sym.hi < uint64(hi) {
		hi = int(p.sym.hi)
	}
	if lo > hi {
		return navigate(elems[0], p.post)
	}
	r := navigate(elems[hi], p.post)
	for k := hi - 1; k >= lo; k-- {
		c := Eq(p.sym, BV(uint64(k), 64))
		if c == FF {
			continue
		}
		m, ok := mergeVal(c, navigate(elems[k], p.post), r)
		if !ok {
			e.unsupported("symbolic index over unmergeable elements")
		}
		r = m
	}
	return r
}

func setPath(v Value, path []int, nv Value) Value {
	if len(path) == 0 {
		return nv
	}
	switch x := v.(type) {
	case *StructV:
		f := append([]Value(nil), x.f...)
		f[path[0]] = setPath(f[path[0]], path[1:], nv)
		return &StructV{f}
	case *ArrayV:
		el := append([]Value(nil), x.e...)
		el[path[0]] = setPath(el[path[0]], path[1:], nv)
		return &ArrayV{el}
	}
	panic(fmt.Sprintf("store: bad path into %T", v))
}

func (e *Engine) store(st *State, p Ptr, v Value) {
	o := st.wobj(p.obj)
	if p.sym != nil {
		if len(p.path) != 0 {
			e.unsupported("symbolic-index store into nested array")
		}
		for k := range o.cells {
			if uint64(k) < p.sym.lo || uint64(k) > p.sym.hi {
				continue
			}
			c := Eq(p.sym, BV(uint64(k), 64))
			if c == FF {
				continue
			}
			m, ok := mergeVal(c, v, navigate(o.cells[k], p.post))
			if !ok {
				e.unsupported("symbolic-index store of unmergeable value")
			}
			o.cells[k] = setPath(o.cells[k], p.post, m)
		}
		return
	}
	if len(p.path) == 0 {
		o.cells = append([]Value(nil), v.(*ArrayV).e...)
		return
	}
	o.cells[p.path[0]] = setPath(o.cells[p.path[0]], p.path[1:], v)
}

// ---------- verification conditions ----------

// require checks an implicit run-time condition. It returns false if the
// current path always fails (outcome recorded); otherwise the path continues
// under the assumption cond (a panic outcome is recorded when cond can fail).
func (e *Engine) require(f *frame, it *item, cond *Term, kind, msg string, pos token.Pos) bool {
	if cond == TT {
		return true
	}
	bad := append(append([]*Term(nil), it.st.pc...), Not(cond))
	res := ResSat
	if cond != FF || len(it.st.pc) > 0 {
		res = e.solver.Check(bad)
	}
	if res == ResUnsat {
		if cond == FF {
			return false
		}
		return true
	}
	ps := it.st.Fork()
	ps.Assume(Not(cond))
	if res == ResUnknown {
		e.undecided = append(e.undecided, fmt.Sprintf("run-time check %s at %s: solver unknown", kind, e.posStr(pos)))
	} else {
		f.outs = append(f.outs, Outcome{st: ps, pan: &PanicInfo{kind: kind, msg: msg, pos: pos}})
	}
	if cond == FF {
		return false
	}
	it.st.Assume(cond)
	return true
}

// ---------- running ----------

type branch struct {
	cond *Term
	val  Value
	do   func(st *State)
}

func (e *Engine) runItem(f *frame, it *item) {
	fi := f.fi
	e.statesN++
	for {
		ins := it.blk.Instrs[it.idx]
		e.steps++
		switch x := ins.(type) {
		case *ssa.If:
			c := e.get(fi, it.regs, x.Cond).(*Term)
			if c == TT {
				e.goTo(f, it, it.blk.Succs[0], true)
				return
			}
			if c == FF {
				e.goTo(f, it, it.blk.Succs[1], true)
				return
			}
			if d := it.st.decide(c); d >= 0 {
				e.goTo(f, it, it.blk.Succs[1-d], true)
				return
			}
			sv := singleVar(c)
			_, small := fullDom2(sv)
			e.forks++
			for k, cond := range []*Term{c, Not(c)} {
				if e.feas && !small {
					q := append(append([]*Term(nil), it.st.pc...), cond)
					if e.solver.Check(q) == ResUnsat {
						continue
					}
				}
				ns := it.st.Fork()
				ns.Assume(cond)
				ni := &item{st: ns, regs: it.regs, blk: it.blk, idx: it.idx, iters: it.iters, pcEntry: it.pcEntry, defers: it.defers}
				e.goTo(f, ni, it.blk.Succs[k], false)
			}
			return
		case *ssa.Jump:
			e.goTo(f, it, it.blk.Succs[0], true)
			return
		case *ssa.Return:
			var ret Value
			switch len(x.Results) {
			case 0:
			case 1:
				ret = e.get(fi, it.regs, x.Results[0])
			default:
				t := make(TupleV, len(x.Results))
				for i, r := range x.Results {
					t[i] = e.get(fi, it.regs, r)
				}
				ret = t
			}
			f.outs = append(f.outs, Outcome{st: it.st, ret: ret})
			return
		case *ssa.Panic:
			v := e.get(fi, it.regs, x.X)
			msg := "panic"
			if iv, ok := v.(IfaceV); ok {
				if s, ok := iv.v.(*Str); ok && s.isC {
					msg = "panic: " + s.c
				}
			}
			f.outs = append(f.outs, Outcome{st: it.st, pan: &PanicInfo{kind: "explicit", msg: msg, pos: x.Pos(), val: v}})
			return
		case *ssa.RunDefers:
			for len(it.defers) > 0 {
				d := it.defers[len(it.defers)-1]
				it.defers = it.defers[:len(it.defers)-1]
				outs := e.callValue(d.fn, d.args, it.st, f.depth+1, ins, d.call)
				if len(outs) != 1 || outs[0].pan != nil {
					e.unsupported("deferred call with %d outcomes", len(outs))
				}
				it.st = outs[0].st
			}
			it.idx++
			continue
		case *ssa.Defer:
			fn, args := e.prepareCall(fi, it, &x.Call)
			it.defers = append(it.defers[:len(it.defers):len(it.defers)], deferRec{fn, args, &x.Call})
			it.idx++
			continue
		case *ssa.Call:
			fn, args := e.prepareCall(fi, it, &x.Call)
			outs := e.callValue(fn, args, it.st, f.depth+1, ins, &x.Call)
			r := fi.regOf[x]
			var norm []Outcome
			for _, o := range outs {
				if o.pan != nil {
					f.outs = append(f.outs, o)
				} else {
					norm = append(norm, o)
				}
			}
			if len(norm) == 0 {
				return
			}
			if len(norm) == 1 {
				it.st = norm[0].st
				it.regs[r] = norm[0].ret
				it.idx++
				continue
			}
			for _, o := range norm {
				ni := &item{st: o.st, regs: append([]Value(nil), it.regs...), blk: it.blk, idx: it.idx + 1, iters: it.iters, pcEntry: it.pcEntry, defers: it.defers}
				ni.regs[r] = o.ret
				f.work = append(f.work, ni)
			}
			return
		}
		// ordinary instruction; may branch
		brs, ok := e.step(f, it, ins)
		if !ok {
			return // path ended (always-failing run-time check)
		}
		if brs == nil {
			it.idx++
			continue
		}
		// multi-way result
		r := -1
		if v, isV := ins.(ssa.Value); isV {
			r = fi.regOf[v]
		}
		var feasible []branch
		for _, b := range brs {
			if b.cond == FF {
				continue
			}
			if b.cond != TT {
				if d := it.st.decide(b.cond); d == 0 {
					continue
				} else if d < 0 && e.feas {
					if _, small := fullDom2(singleVar(b.cond)); !small {
						q := append(append([]*Term(nil), it.st.pc...), b.cond)
						if e.solver.Check(q) == ResUnsat {
							continue
						}
					}
				}
			}
			feasible = append(feasible, b)
		}
		if len(feasible) == 0 {
			return
		}
		if len(feasible) == 1 {
			b := feasible[0]
			it.st.Assume(b.cond)
			if b.do != nil {
				b.do(it.st)
			}
			if r >= 0 {
				it.regs[r] = b.val
			}
			it.idx++
			continue
		}
		e.forks++
		for _, b := range feasible {
			ns := it.st.Fork()
			ns.Assume(b.cond)
			if b.do != nil {
				b.do(ns)
			}
			ni := &item{st: ns, regs: append([]Value(nil), it.regs...), blk: it.blk, idx: it.idx + 1, iters: it.iters, pcEntry: it.pcEntry, defers: it.defers}
			if r >= 0 {
				ni.regs[r] = b.val
			}
			f.work = append(f.work, ni)
		}
		return
	}
}

func (e *Engine) prepareCall(fi *fnInfo, it *item, c *ssa.CallCommon) (Value, []Value) {
	var args []Value
	if c.IsInvoke() {
		recv := e.get(fi, it.regs, c.Value)
		args = append(args, recv)
		for _, a := range c.Args {
			args = append(args, e.get(fi, it.regs, a))
		}
		return &FuncV{intr: "invoke:" + c.Method.Name()}, args
	}
	for _, a := range c.Args {
		args = append(args, e.get(fi, it.regs, a))
	}
	return e.get(fi, it.regs, c.Value), args
}

func (e *Engine) callValue(fnv Value, args []Value, st *State, depth int, site ssa.Instruction, cc *ssa.CallCommon) []Outcome {
	fv, ok := fnv.(*FuncV)
	if !ok || fv == nil {
		return []Outcome{{st: st, pan: &PanicInfo{kind: "nil", msg: "call of nil function", pos: site.Pos()}}}
	}
	if strings.HasPrefix(fv.intr, "invoke:") {
		recv, ok := args[0].(IfaceV)
		if !ok {
			e.unsupported("invoke on %T", args[0])
		}
		if recv.t == nil {
			return []Outcome{{st: st, pan: &PanicInfo{kind: "nil", msg: "method call on nil interface", pos: site.Pos()}}}
		}
		m := e.lookupMethod(recv.t, cc.Method)
		if m == nil {
			e.unsupported("no method %s on %s", cc.Method.Name(), recv.t)
		}
		args[0] = recv.v
		return e.callFunction(m, args, nil, st, depth, site)
	}
	if strings.HasPrefix(fv.intr, "builtin:") {
		return e.builtin(fv.intr[8:], args, st, site, cc)
	}
	if fv.intr != "" {
		return e.boundIntrinsic(fv, args, st, depth, site)
	}
	return e.callFunction(fv.fn, args, fv.env, st, depth, site)
}

func (e *Engine) lookupMethod(t types.Type, m *types.Func) *ssa.Function {
	ms := e.prog.MethodSets.MethodSet(t)
	sel := ms.Lookup(m.Pkg(), m.Name())
	if sel == nil {
		return nil
	}
	return e.prog.MethodValue(sel)
}

func (e *Engine) Run(fn *ssa.Function) (outs []Outcome, err error) {
	defer func() {
		if r := recover(); r != nil {
			if u, ok := r.(unsupported); ok {
				err = fmt.Errorf("unsupported: %s (in %s)", u.msg, strings.Join(lastN(e.stack, 6), " > "))
				return
			}
			fmt.Fprintf(os.Stderr, "engine stack: %s\n", strings.Join(lastN(e.stack, 12), " > "))
			panic(r)
		}
	}()
	st := NewState()
	outs = e.callFunction(fn, nil, nil, st, 0, nil)
	return outs, nil
}

func fullDom2(v *Term) (uint64, bool) {
	if v == nil || v == multiVar {
		return 0, false
	}
	return fullDom(v)
}

func lastN(s []string, n int) []string {
	if len(s) > n {
		return s[len(s)-n:]
	}
	return s
}
