package main

// One long-lived solver process (z3 -in), terms defined once at level 0,
// queries under push/pop.

import (
	"bufio"
	"fmt"
	"io"
	"os"
	"os/exec"
	"strconv"
	"strings"
	"time"
)

type Solver struct {
	cmd       *exec.Cmd
	in        io.WriteCloser
	out       *bufio.Reader
	nAxioms   int
	nVars     int
	Queries   int
	Sat       int
	Unsat     int
	Unknown   int
	Seconds   float64
	timeoutMs int
	dump      *os.File
	cache     map[string]int // key -> result
	CacheHits int
	buf       strings.Builder
	Where     func() string
	ByWhere   map[string][2]float64
}

const (
	ResUnsat = iota
	ResSat
	ResUnknown
)

var solverBin = "z3"

func NewSolver(timeoutMs int) *Solver {
	s := &Solver{timeoutMs: timeoutMs, cache: map[string]int{}}
	s.start()
	return s
}

func (s *Solver) start() {
	var cmd *exec.Cmd
	switch solverBin {
	case "cvc5":
		cmd = exec.Command("cvc5", "--incremental", "--lang=smt2", "--produce-models", fmt.Sprintf("--tlimit-per=%d", s.timeoutMs))
	default:
		cmd = exec.Command(solverBin, "-in", fmt.Sprintf("-t:%d", s.timeoutMs))
	}
	in, _ := cmd.StdinPipe()
	out, _ := cmd.StdoutPipe()
	cmd.Stderr = os.Stderr
	if err := cmd.Start(); err != nil {
		fatalf("cannot start solver %s: %v", solverBin, err)
	}
	s.cmd, s.in, s.out = cmd, in, bufio.NewReaderSize(out, 1<<16)
	if p := os.Getenv("GOSYM_DUMP"); p != "" {
		s.dump, _ = os.Create(p)
	}
	s.send("(set-option :produce-models true)\n")
	s.send("(set-logic QF_BV)\n")
	s.nAxioms, s.nVars = 0, 0
	for _, t := range termTab {
		t.sent = false
	}
	for _, t := range varTab {
		t.sent = false
	}
}

func (s *Solver) Close() {
	if s.cmd != nil {
		s.in.Close()
		s.cmd.Process.Kill()
		s.cmd.Wait()
		s.cmd = nil
	}
}

func (s *Solver) send(txt string) {
	if s.dump != nil {
		s.dump.WriteString(txt)
	}
	if _, err := io.WriteString(s.in, txt); err != nil {
		fatalf("solver write: %v", err)
	}
}

func (s *Solver) define(t *Term) {
	if t.sent || t.op == OpConst {
		return
	}
	// iterative post-order
	stack := []*Term{t}
	for len(stack) > 0 {
		x := stack[len(stack)-1]
		if x.sent || x.op == OpConst {
			stack = stack[:len(stack)-1]
			continue
		}
		pending := false
		for _, a := range x.a {
			if a != nil && !a.sent && a.op != OpConst {
				stack = append(stack, a)
				pending = true
			}
		}
		if pending {
			continue
		}
		stack = stack[:len(stack)-1]
		x.sent = true
		if x.op == OpVar {
			fmt.Fprintf(&s.buf, "(declare-const %s %s)\n", smtName(x), sortOf(x.w))
		} else {
			fmt.Fprintf(&s.buf, "(define-fun %s () %s %s)\n", smtName(x), sortOf(x.w), smtBody(x))
		}
	}
}

func (s *Solver) flushDefs() {
	for s.nAxioms < len(axioms) {
		a := axioms[s.nAxioms]
		s.define(a)
		fmt.Fprintf(&s.buf, "(assert %s)\n", smtName(a))
		s.nAxioms++
	}
	if s.buf.Len() > 0 {
		s.send(s.buf.String())
		s.buf.Reset()
	}
}

func (s *Solver) readLine() string {
	line, err := s.out.ReadString('\n')
	if err != nil {
		return "(error \"solver died: " + err.Error() + "\")"
	}
	return strings.TrimSpace(line)
}

// Check decides satisfiability of the conjunction of conds (plus axioms).
func (s *Solver) Check(conds []*Term) int {
	r, _ := s.check(conds, false)
	return r
}

func (s *Solver) check(conds []*Term, wantModel bool) (int, map[string]uint64) {
	// trivial cases
	var cs []*Term
	for _, c := range conds {
		if c == FF {
			return ResUnsat, nil
		}
		if c != TT {
			cs = append(cs, c)
		}
	}
	var key string
	if !wantModel {
		var kb strings.Builder
		for _, c := range cs {
			kb.WriteString(strconv.Itoa(int(c.id)))
			kb.WriteByte(',')
		}
		key = kb.String()
		if r, ok := s.cache[key]; ok {
			s.CacheHits++
			return r, nil
		}
	}
	for _, c := range cs {
		s.define(c)
	}
	s.flushDefs()
	var sb strings.Builder
	sb.WriteString("(push 1)\n")
	for _, c := range cs {
		fmt.Fprintf(&sb, "(assert %s)\n", smtName(c))
	}
	sb.WriteString("(check-sat)\n")
	t0 := time.Now()
	s.send(sb.String())
	line := s.readLine()
	dt := time.Since(t0).Seconds()
	if s.ByWhere != nil {
		w := s.Where()
		e := s.ByWhere[w]
		e[0]++
		e[1] += dt
		s.ByWhere[w] = e
		if s.Queries%1000 == 999 {
			fmt.Fprintf(os.Stderr, "-- after %d queries\n", s.Queries+1)
			for k, v := range s.ByWhere {
				if v[0] > 100 {
					fmt.Fprintf(os.Stderr, "%6.0f queries %7.2fs  %s\n", v[0], v[1], k)
				}
			}
		}
	}
	s.Seconds += dt
	s.Queries++
	if dt > 0.3 && os.Getenv("GOSYM_SLOW") != "" {
		fmt.Fprintf(os.Stderr, "slow query #%d %.2fs conds=%d result=%s where=%s\n", s.Queries, dt, len(cs), line, s.Where())
	}
	res := ResUnknown
	switch {
	case line == "sat":
		res = ResSat
		s.Sat++
	case line == "unsat":
		res = ResUnsat
		s.Unsat++
	default:
		s.Unknown++
		if strings.Contains(line, "error") {
			fmt.Fprintf(os.Stderr, "solver: %s\n", line)
		}
	}
	var model map[string]uint64
	if res == ResSat && wantModel {
		model = map[string]uint64{}
		var names []string
		for _, v := range allVars {
			if v.sent {
				names = append(names, smtName(v))
			}
		}
		if len(names) > 0 {
			s.send("(get-value (" + strings.Join(names, " ") + "))\n")
			model = s.readModel(len(names))
		}
	}
	s.send("(pop 1)\n")
	if res == ResUnknown && s.cmd != nil && strings.Contains(line, "died") {
		s.Close()
		s.start()
	}
	if !wantModel {
		s.cache[key] = res
	}
	return res, model
}

// readModel parses the get-value answer: ((|a| #x01) (|b| true) ...)
func (s *Solver) readModel(n int) map[string]uint64 {
	model := map[string]uint64{}
	depth := 0
	var sb strings.Builder
	for {
		line, err := s.out.ReadString('\n')
		if err != nil {
			break
		}
		sb.WriteString(line)
		for _, ch := range line {
			if ch == '(' {
				depth++
			} else if ch == ')' {
				depth--
			}
		}
		if depth <= 0 {
			break
		}
	}
	txt := sb.String()
	// tokens
	i := 0
	for i < len(txt) {
		j := strings.IndexByte(txt[i:], '|')
		if j < 0 {
			break
		}
		j += i
		k := strings.IndexByte(txt[j+1:], '|')
		if k < 0 {
			break
		}
		k += j + 1
		name := txt[j+1 : k]
		rest := strings.TrimLeft(txt[k+1:], " \n\t")
		var val uint64
		switch {
		case strings.HasPrefix(rest, "#x"):
			e := 2
			for e < len(rest) && isHex(rest[e]) {
				e++
			}
			val, _ = strconv.ParseUint(rest[2:e], 16, 64)
		case strings.HasPrefix(rest, "#b"):
			e := 2
			for e < len(rest) && (rest[e] == '0' || rest[e] == '1') {
				e++
			}
			val, _ = strconv.ParseUint(rest[2:e], 2, 64)
		case strings.HasPrefix(rest, "(_ bv"):
			e := 5
			for e < len(rest) && rest[e] >= '0' && rest[e] <= '9' {
				e++
			}
			val, _ = strconv.ParseUint(rest[5:e], 10, 64)
		case strings.HasPrefix(rest, "true"):
			val = 1
		case strings.HasPrefix(rest, "false"):
			val = 0
		}
		model[name] = val
		i = k + 1
	}
	return model
}

func isHex(c byte) bool {
	return c >= '0' && c <= '9' || c >= 'a' && c <= 'f' || c >= 'A' && c <= 'F'
}

// Model returns a satisfying assignment for conds, or nil.
func (s *Solver) Model(conds []*Term) (int, map[string]uint64) {
	return s.check(conds, true)
}

func fatalf(format string, args ...interface{}) {
	fmt.Fprintf(os.Stderr, "gosym: "+format+"\n", args...)
	os.Exit(2)
}
