package main

import (
	"strconv"
	"unicode"
)

// isPrintTerm: strconv.IsPrint / unicode.IsPrint of a symbolic rune, as the
// disjunction of the maximal ranges on which the library's own function is
// true (computed once from the library by enumeration of all code points).
var isPrintRanges [2][][2]uint64

func isPrintTerm(r *Term, uni bool) *Term {
	k := 0
	f := strconv.IsPrint
	if uni {
		k, f = 1, unicode.IsPrint
	}
	if isPrintRanges[k] == nil {
		start := int64(-1)
		for c := int64(0); c <= unicode.MaxRune+1; c++ {
			p := c <= unicode.MaxRune && f(rune(c))
			if p && start < 0 {
				start = c
			}
			if !p && start >= 0 {
				isPrintRanges[k] = append(isPrintRanges[k], [2]uint64{uint64(start), uint64(c - 1)})
				start = -1
			}
		}
	}
	acc := FF
	for _, rg := range isPrintRanges[k] {
		lo, hi := BV(rg[0], r.w), BV(rg[1], r.w)
		if rg[0] == rg[1] {
			acc = Or(acc, Eq(r, lo))
		} else {
			acc = Or(acc, And(Ule(lo, r), Ule(r, hi)))
		}
	}
	return acc
}
