package main

// Models of two library predicates on symbolic strings. Both are checked
// against the library under random models by the engine self-test.

// strContainsConst: strings.Contains(s, sub) for a constant sub.
func strContainsConst(s *Str, sub string) *Term {
	if len(sub) == 0 {
		return TT
	}
	n := s.Len()
	acc := FF
	for i := 0; i+len(sub) <= s.Max(); i++ {
		c := Ule(i64(i+len(sub)), n)
		for j := 0; j < len(sub); j++ {
			c = And(c, Eq(s.At(i+j), BV(uint64(sub[j]), 8)))
		}
		acc = Or(acc, c)
	}
	return acc
}

// strValidUTF8: utf8.ValidString(s). v[i] says that the bytes from position i
// to the end form well-formed sequences (table 3-7 of the Unicode standard,
// which is what the library implements).
func strValidUTF8(s *Str) *Term {
	n := s.Len()
	mx := s.Max()
	v := make([]*Term, mx+5)
	for i := mx; i < len(v); i++ {
		v[i] = TT // never reached with i < n
	}
	in := func(b *Term, lo, hi uint64) *Term { return And(Ule(BV(lo, 8), b), Ule(b, BV(hi, 8))) }
	for i := mx - 1; i >= 0; i-- {
		b0, b1, b2, b3 := s.At(i), s.At(i+1), s.At(i+2), s.At(i+3)
		has := func(k int) *Term { return Ule(i64(i+k), n) } // k bytes available from i
		one := And(Ult(b0, BV(0x80, 8)), v[i+1])
		two := And(And(in(b0, 0xC2, 0xDF), has(2)), And(in(b1, 0x80, 0xBF), v[i+2]))
		second3 := Or(Or(And(Eq(b0, BV(0xE0, 8)), in(b1, 0xA0, 0xBF)), And(Eq(b0, BV(0xED, 8)), in(b1, 0x80, 0x9F))),
			And(And(in(b0, 0xE1, 0xEF), Not(Eq(b0, BV(0xED, 8)))), in(b1, 0x80, 0xBF)))
		three := And(And(has(3), second3), And(in(b2, 0x80, 0xBF), v[i+3]))
		second4 := Or(Or(And(Eq(b0, BV(0xF0, 8)), in(b1, 0x90, 0xBF)), And(Eq(b0, BV(0xF4, 8)), in(b1, 0x80, 0x8F))),
			And(in(b0, 0xF1, 0xF3), in(b1, 0x80, 0xBF)))
		four := And(And(has(4), second4), And(And(in(b2, 0x80, 0xBF), in(b3, 0x80, 0xBF)), v[i+4]))
		ok := Or(Or(one, two), Or(three, four))
		v[i] = Or(Ule(n, i64(i)), ok) // at or past the end: nothing left to check
	}
	if mx == 0 {
		return TT
	}
	return v[0]
}
