package main

import (
	"fmt"
	"math/rand"
	"os"
	"strconv"
	"strings"
	"unicode"
	"unicode/utf8"
)

// runSelfTest checks engine-side models against the native library.
func runSelfTest() {
	bad := 0
	// utf8 decode model, exhaustively over 2-byte prefixes + random 4-byte inputs
	in := symStr("st", 4)
	n := NewVarRange("st.n", 64, 0, 4)
	s := &Str{n: n, b: in.b}
	r, size := symDecodeRune(s, i64(0))
	check := func(bs []byte) {
		model := map[string]uint64{"st.n": uint64(len(bs))}
		for i := 0; i < 4; i++ {
			if i < len(bs) {
				model[fmt.Sprintf("st[%d]", i)] = uint64(bs[i])
			}
		}
		memo := map[*Term]uint64{}
		gr := rune(int32(evalTerm(r, model, memo)))
		gs := int(evalTerm(size, model, memo))
		wr, ws := utf8.DecodeRuneInString(string(bs))
		if gr != wr || gs != ws {
			bad++
			if bad < 10 {
				fmt.Fprintf(os.Stderr, "utf8 model mismatch on %x: got (%x,%d) want (%x,%d)\n", bs, gr, gs, wr, ws)
			}
		}
	}
	check(nil)
	for a := 0; a < 256; a++ {
		check([]byte{byte(a)})
		for b := 0; b < 256; b++ {
			check([]byte{byte(a), byte(b)})
		}
	}
	rng := rand.New(rand.NewSource(1))
	for i := 0; i < 300000; i++ {
		l := 3 + rng.Intn(2)
		bs := make([]byte, l)
		for j := range bs {
			bs[j] = byte(rng.Intn(256))
		}
		if rng.Intn(2) == 0 {
			bs[0] = 0xE0 + byte(rng.Intn(0x15))
			for j := 1; j < l; j++ {
				bs[j] = 0x80 + byte(rng.Intn(0x40))
			}
		}
		check(bs)
	}
	// rune encoding model
	rv := NewVar("st.r", 32)
	enc := (&Engine{}).runeToString(rv)
	for i := 0; i < 200000; i++ {
		var x int32
		switch rng.Intn(4) {
		case 0:
			x = int32(rng.Intn(0x800))
		case 1:
			x = int32(rng.Intn(0x110000 + 100))
		case 2:
			x = int32(0xD700 + rng.Intn(0x1000))
		default:
			x = int32(rng.Uint32())
		}
		model := map[string]uint64{"st.r": uint64(uint32(x))}
		got := enc.eval(model, map[*Term]uint64{})
		if got != string(rune(x)) {
			bad++
			if bad < 10 {
				fmt.Fprintf(os.Stderr, "rune encode mismatch on %x: got %x want %x\n", x, got, string(rune(x)))
			}
		}
	}
	bad += strSelfTest(rng)
	bad += strModelSelfTest(rng)
	if bad > 0 {
		fmt.Fprintf(os.Stderr, "selftest: %d mismatches\n", bad)
		os.Exit(2)
	}
	fmt.Println("selftest ok")
}

// strSelfTest: symbolic string operations against Go semantics under random models.
func strSelfTest(rng *rand.Rand) int {
	bad := 0
	base := symStr("ss", 6)
	mkVS := func(name string, vals ...uint64) *Term {
		v := NewVarRange(name, 8, 0, uint64(len(vals)-1))
		t := BV(vals[len(vals)-1], 64)
		for i := len(vals) - 2; i >= 0; i-- {
			t = Ite(Eq(v, BV(uint64(i), 8)), BV(vals[i], 64), t)
		}
		return t
	}
	lo := mkVS("ss.lo", 0, 1, 2, 3)
	w := mkVS("ss.w", 0, 1, 2, 3)
	hi := Add(lo, w)
	sl := base.Slice(lo, hi)
	lo2 := mkVS("ss.lo2", 0, 2, 4)
	w2 := mkVS("ss.w2", 1, 2)
	sl2 := base.Slice(lo2, Add(lo2, w2))
	cat := strConcat(sl, sl2)
	cat2 := strConcat(cat, strConst("x"))
	cat3 := strConcat(cat2, sl)
	eq := strEq(sl, sl2)
	less := strLess(sl, sl2)
	sel := cat.Select(w)
	for i := 0; i < 20000; i++ {
		model := map[string]uint64{"ss.lo": uint64(rng.Intn(4)), "ss.w": uint64(rng.Intn(4)), "ss.lo2": uint64(rng.Intn(3)), "ss.w2": uint64(rng.Intn(2))}
		bs := make([]byte, 6)
		for j := range bs {
			bs[j] = byte(rng.Intn(4)) + 'a'
			model[fmt.Sprintf("ss[%d]", j)] = uint64(bs[j])
		}
		gs := string(bs)
		l := []int{0, 1, 2, 3}[model["ss.lo"]]
		ww := []int{0, 1, 2, 3}[model["ss.w"]]
		l2 := []int{0, 2, 4}[model["ss.lo2"]]
		ww2 := []int{1, 2}[model["ss.w2"]]
		want1 := gs[l : l+ww]
		want2 := gs[l2 : l2+ww2]
		memo := map[*Term]uint64{}
		chk := func(what, got, want string) {
			if got != want {
				bad++
				if bad < 10 {
					fmt.Fprintf(os.Stderr, "str selftest %s: got %q want %q (model %v)\n", what, got, want, model)
				}
			}
		}
		chk("slice", sl.eval(model, memo), want1)
		chk("slice2", sl2.eval(model, memo), want2)
		chk("concat", cat.eval(model, memo), want1+want2)
		chk("concat2", cat2.eval(model, memo), want1+want2+"x")
		chk("concat3", cat3.eval(model, memo), want1+want2+"x"+want1)
		chk("eq", fmt.Sprint(evalTerm(eq, model, memo) == 1), fmt.Sprint(want1 == want2))
		chk("less", fmt.Sprint(evalTerm(less, model, memo) == 1), fmt.Sprint(want1 < want2))
		if ww < len(want1+want2) {
			chk("select", string([]byte{byte(evalTerm(sel, model, memo))}), string((want1 + want2)[ww]))
		}
	}
	return bad
}

// strModelSelfTest: strContainsConst, strValidUTF8 and isPrintTerm against the library.
func strModelSelfTest(rng *rand.Rand) int {
	bad := 0
	base := symStr("sm", 5)
	lenV := NewVarRange("sm.len", 8, 0, 5)
	s := base.Slice(BV(0, 64), ZExt(lenV, 64))
	contains := strContainsConst(s, `"""`)
	valid := strValidUTF8(s)
	alphabet := []byte{'"', '"', '"', 'a', 0x80, 0xBF, 0xC2, 0xE0, 0xA0, 0xED, 0x9F, 0xF0, 0x90, 0xF4, 0x8F, 0xC0, 0xF5, 0xFF, 0x7F}
	for i := 0; i < 100000; i++ {
		l := rng.Intn(6)
		model := map[string]uint64{"sm.len": uint64(l)}
		bs := make([]byte, 5)
		for j := range bs {
			if rng.Intn(3) == 0 {
				bs[j] = byte(rng.Intn(256))
			} else {
				bs[j] = alphabet[rng.Intn(len(alphabet))]
			}
			model[fmt.Sprintf("sm[%d]", j)] = uint64(bs[j])
		}
		gs := string(bs[:l])
		memo := map[*Term]uint64{}
		if (evalTerm(contains, model, memo) == 1) != strings.Contains(gs, `"""`) {
			bad++
			if bad < 10 {
				fmt.Fprintf(os.Stderr, "contains model mismatch on %q\n", gs)
			}
		}
		if (evalTerm(valid, model, memo) == 1) != utf8.ValidString(gs) {
			bad++
			if bad < 10 {
				fmt.Fprintf(os.Stderr, "ValidString model mismatch on %q\n", gs)
			}
		}
	}
	pbase := symStr("sp", 5)
	plen := NewVarRange("sp.len", 8, 0, 5)
	ps := pbase.Slice(BV(0, 64), ZExt(plen, 64))
	v16, x16 := symParseIntTerms(ps, 16, false)
	v10, x10 := symParseIntTerms(ps, 10, true)
	palpha := []byte("0123456789abcdefABCDEF+-gG_ x")
	for i := 0; i < 100000; i++ {
		l := rng.Intn(6)
		model := map[string]uint64{"sp.len": uint64(l)}
		bs := make([]byte, 5)
		for j := range bs {
			bs[j] = palpha[rng.Intn(len(palpha))]
			if rng.Intn(20) == 0 {
				bs[j] = byte(rng.Intn(256))
			}
			model[fmt.Sprintf("sp[%d]", j)] = uint64(bs[j])
		}
		gs := string(bs[:l])
		memo := map[*Term]uint64{}
		u, uerr := strconv.ParseUint(gs, 16, 64)
		if (evalTerm(v16, model, memo) == 1) != (uerr == nil) || (uerr == nil && evalTerm(x16, model, memo) != u) {
			bad++
			if bad < 10 {
				fmt.Fprintf(os.Stderr, "ParseUint model mismatch on %q\n", gs)
			}
		}
		d, derr := strconv.ParseInt(gs, 10, 64)
		if (evalTerm(v10, model, memo) == 1) != (derr == nil) || (derr == nil && int64(evalTerm(x10, model, memo)) != d) {
			bad++
			if bad < 10 {
				fmt.Fprintf(os.Stderr, "ParseInt model mismatch on %q\n", gs)
			}
		}
	}
	hv := NewVar("sm.h", 32)
	h4, h1 := fmtHex(hv, 4, false), fmtHex(hv, 1, true)
	for i := 0; i < 100000; i++ {
		var x uint32
		switch rng.Intn(3) {
		case 0:
			x = uint32(rng.Intn(0x20))
		case 1:
			x = uint32(rng.Intn(0x120000))
		default:
			x = rng.Uint32()
		}
		model := map[string]uint64{"sm.h": uint64(x)}
		memo := map[*Term]uint64{}
		if got, want := h4.eval(model, memo), fmt.Sprintf("%04x", x); got != want {
			bad++
			if bad < 10 {
				fmt.Fprintf(os.Stderr, "hex model mismatch: %q want %q\n", got, want)
			}
		}
		if got, want := h1.eval(model, memo), fmt.Sprintf("%X", x); got != want {
			bad++
			if bad < 10 {
				fmt.Fprintf(os.Stderr, "hex model mismatch: %q want %q\n", got, want)
			}
		}
	}
	rv := NewVar("sm.r", 32)
	p1, p2 := isPrintTerm(rv, false), isPrintTerm(rv, true)
	for i := 0; i < 40000; i++ {
		var x int32
		switch rng.Intn(4) {
		case 0:
			x = int32(rng.Intn(0x3000))
		case 1:
			x = int32(rng.Intn(0x110000 + 100))
		case 2:
			x = int32(0xE0000 + rng.Intn(0x300))
		default:
			x = int32(rng.Uint32())
		}
		model := map[string]uint64{"sm.r": uint64(uint32(x))}
		memo := map[*Term]uint64{}
		if (evalTerm(p1, model, memo) == 1) != strconv.IsPrint(rune(x)) || (evalTerm(p2, model, memo) == 1) != unicode.IsPrint(rune(x)) {
			bad++
			if bad < 10 {
				fmt.Fprintf(os.Stderr, "IsPrint model mismatch on %x\n", x)
			}
		}
	}
	return bad
}
