package main

// A model of the part of package reflect that validator/vars.go uses, over the
// engine's own values. A reflect.Value is kept in the struct layout the real
// type has (three fields); field 0 holds IfaceV{static type, value of that
// type} for a valid Value and the zero pointer for the zero Value. For a Value
// of interface kind (an element of []interface{} or map[string]interface{})
// the static type is the interface type and the value is the IfaceV stored in
// the cell.
//
// This is a model, not the library's code: reflect reads runtime type
// descriptors through unsafe pointers, which the engine cannot execute. It is
// validated natively against package reflect by engine self-test
// (selftestReflect) on the JSON-like values the harness uses.

import (
	"go/types"
	"strings"

	"golang.org/x/tools/go/ssa"
)

type RTypeV struct{ t types.Type } // the value behind a reflect.Type interface

func (e *Engine) reflValueType(fn *ssa.Function) types.Type {
	if e.reflValT == nil {
		p := e.prog.ImportedPackage("reflect")
		e.reflValT = p.Type("Value").Type()
		e.reflRtypePtr = types.NewPointer(p.Type("rtype").Type())
	}
	return e.reflValT
}

func rvInvalid(v Value) bool {
	s := v.(*StructV)
	_, isI := s.f[0].(IfaceV)
	return !isI
}

func rvGet(v Value) (types.Type, Value) {
	i := v.(*StructV).f[0].(IfaceV)
	return i.t, i.v
}

func (e *Engine) rvMake(t types.Type, v Value) Value {
	return &StructV{f: []Value{IfaceV{t, v}, Ptr{}, BV(0, 64)}}
}

func (e *Engine) rvZero() Value { return &StructV{f: []Value{Ptr{}, Ptr{}, BV(0, 64)}} }

// rvOfCell: the Value for a cell of static type t.
func (e *Engine) rvOfCell(t types.Type, cell Value) Value {
	return e.rvMake(t, cell)
}

var reflKindNames = []string{"invalid", "bool", "int", "int8", "int16", "int32", "int64", "uint", "uint8", "uint16", "uint32", "uint64", "uintptr",
	"float32", "float64", "complex64", "complex128", "array", "chan", "func", "interface", "map", "ptr", "slice", "string", "struct", "unsafe.Pointer"}

func reflKindOf(t types.Type) int {
	switch u := t.Underlying().(type) {
	case *types.Basic:
		switch u.Kind() {
		case types.Bool:
			return 1
		case types.Int:
			return 2
		case types.Int8:
			return 3
		case types.Int16:
			return 4
		case types.Int32:
			return 5
		case types.Int64:
			return 6
		case types.Uint:
			return 7
		case types.Uint8:
			return 8
		case types.Uint16:
			return 9
		case types.Uint32:
			return 10
		case types.Uint64:
			return 11
		case types.Uintptr:
			return 12
		case types.Float32:
			return 13
		case types.Float64:
			return 14
		case types.String:
			return 24
		case types.UnsafePointer:
			return 26
		}
	case *types.Array:
		return 17
	case *types.Chan:
		return 18
	case *types.Signature:
		return 19
	case *types.Interface:
		return 20
	case *types.Map:
		return 21
	case *types.Pointer:
		return 22
	case *types.Slice:
		return 23
	case *types.Struct:
		return 25
	}
	return 0
}

func reflPanic(st *State, site ssa.Instruction, msg string) []Outcome {
	return []Outcome{{st: st, pan: &PanicInfo{kind: "reflect", msg: msg, pos: site.Pos(), val: IfaceV{types.Typ[types.String], strConst(msg)}}}}
}

// toCell converts a reflect.Value into a value storable in a cell of type et.
func (e *Engine) rvToCell(et types.Type, rv Value) Value {
	t, v := rvGet(rv)
	if _, isI := et.Underlying().(*types.Interface); isI {
		if _, vi := t.Underlying().(*types.Interface); vi {
			return v // already an interface value
		}
		return IfaceV{t, v}
	}
	return v
}

func (e *Engine) reflectCall(fn *ssa.Function, name string, args []Value, st *State, depth int, site ssa.Instruction) ([]Outcome, bool) {
	e.reflValueType(fn)
	uint64T := func(k int) Value { return BV(uint64(k), 64) } // reflect.Kind is uint
	switch name {
	case "reflect.ValueOf":
		i := args[0].(IfaceV)
		if i.t == nil {
			return one(st, e.rvZero()), true
		}
		return one(st, e.rvMake(i.t, i.v)), true
	case "(reflect.Value).IsValid":
		return one(st, Bool(!rvInvalid(args[0]))), true
	case "(reflect.Value).Kind":
		if rvInvalid(args[0]) {
			return one(st, uint64T(0)), true
		}
		t, _ := rvGet(args[0])
		return one(st, uint64T(reflKindOf(t))), true
	case "(reflect.Value).Type":
		if rvInvalid(args[0]) {
			return reflPanic(st, site, "reflect: call of reflect.Value.Type on zero Value"), true
		}
		t, _ := rvGet(args[0])
		return one(st, IfaceV{e.reflRtypePtr, RTypeV{t}}), true
	case "(*reflect.rtype).Kind":
		return one(st, uint64T(reflKindOf(args[0].(RTypeV).t))), true
	case "(*reflect.rtype).String":
		return one(st, strConst(args[0].(RTypeV).t.String())), true
	case "(reflect.Kind).String":
		if k, ok := cint(args[0]); ok && int(k) < len(reflKindNames) {
			return one(st, strConst(reflKindNames[k])), true
		}
		e.unsupported("reflect.Kind.String on symbolic kind")
	case "(reflect.Value).Elem":
		if rvInvalid(args[0]) {
			return reflPanic(st, site, "reflect: call of reflect.Value.Elem on zero Value"), true
		}
		t, v := rvGet(args[0])
		switch t.Underlying().(type) {
		case *types.Interface:
			in := v.(IfaceV)
			if in.t == nil {
				return one(st, e.rvZero()), true
			}
			return one(st, e.rvMake(in.t, in.v)), true
		}
		return reflPanic(st, site, "reflect: call of reflect.Value.Elem on "+reflKindNames[reflKindOf(t)]+" Value"), true
	case "(reflect.Value).IsNil":
		if rvInvalid(args[0]) {
			return reflPanic(st, site, "reflect: call of reflect.Value.IsNil on zero Value"), true
		}
		t, v := rvGet(args[0])
		switch t.Underlying().(type) {
		case *types.Interface:
			return one(st, Bool(v.(IfaceV).t == nil)), true
		case *types.Slice:
			return one(st, Bool(v.(SliceV).obj == 0)), true
		case *types.Map:
			return one(st, Bool(v.(MapV).obj == 0)), true
		case *types.Pointer:
			return one(st, Bool(v.(Ptr).obj == 0)), true
		}
		return reflPanic(st, site, "reflect: call of reflect.Value.IsNil on "+reflKindNames[reflKindOf(t)]+" Value"), true
	case "(reflect.Value).Interface":
		if rvInvalid(args[0]) {
			return reflPanic(st, site, "reflect: call of reflect.Value.Interface on zero Value"), true
		}
		t, v := rvGet(args[0])
		if _, isI := t.Underlying().(*types.Interface); isI {
			return one(st, v), true
		}
		return one(st, IfaceV{t, v}), true
	case "(reflect.Value).String":
		if rvInvalid(args[0]) {
			return one(st, strConst("<invalid Value>")), true
		}
		t, v := rvGet(args[0])
		if reflKindOf(t) == 24 {
			return one(st, v), true
		}
		return one(st, strConst("<"+t.String()+" Value>")), true
	case "(reflect.Value).Len":
		if rvInvalid(args[0]) {
			return reflPanic(st, site, "reflect: call of reflect.Value.Len on zero Value"), true
		}
		t, v := rvGet(args[0])
		switch t.Underlying().(type) {
		case *types.Slice:
			return one(st, i64(v.(SliceV).ln)), true
		case *types.Map:
			m := v.(MapV)
			if m.obj == 0 {
				return one(st, i64(0)), true
			}
			return one(st, i64(len(st.obj(m.obj).keys))), true
		case *types.Basic:
			if s, ok := v.(*Str); ok {
				return one(st, s.Len()), true
			}
		}
		return reflPanic(st, site, "reflect: call of reflect.Value.Len on "+reflKindNames[reflKindOf(t)]+" Value"), true
	case "(reflect.Value).Index":
		if rvInvalid(args[0]) {
			return reflPanic(st, site, "reflect: call of reflect.Value.Index on zero Value"), true
		}
		t, v := rvGet(args[0])
		sl, isS := t.Underlying().(*types.Slice)
		if !isS {
			return reflPanic(st, site, "reflect: call of reflect.Value.Index on "+reflKindNames[reflKindOf(t)]+" Value"), true
		}
		i, ok := cint(args[1])
		if !ok {
			e.unsupported("reflect.Value.Index with symbolic index")
		}
		s := v.(SliceV)
		if i < 0 || int(i) >= s.ln {
			return reflPanic(st, site, "reflect: slice index out of range"), true
		}
		return one(st, e.rvOfCell(sl.Elem(), st.obj(s.obj).cells[s.off+int(i)])), true
	case "reflect.SliceOf":
		rt := args[0].(IfaceV)
		return one(st, IfaceV{e.reflRtypePtr, RTypeV{types.NewSlice(rt.v.(RTypeV).t)}}), true
	case "reflect.MakeSlice":
		rt := args[0].(IfaceV).v.(RTypeV).t
		n, ok1 := cint(args[1])
		c, ok2 := cint(args[2])
		if !ok1 || !ok2 || n != 0 {
			e.unsupported("reflect.MakeSlice with non-zero or symbolic length")
		}
		_ = c
		o := st.alloc(site, 11, nil, rt.Underlying().(*types.Slice).Elem())
		return one(st, e.rvMake(rt, SliceV{o.id, 0, 0, 0})), true
	case "reflect.Append":
		if rvInvalid(args[0]) {
			return reflPanic(st, site, "reflect: call of reflect.Append on zero Value"), true
		}
		t, v := rvGet(args[0])
		sl, isS := t.Underlying().(*types.Slice)
		if !isS {
			return reflPanic(st, site, "reflect.Append: not a slice"), true
		}
		cells := append([]Value(nil), sliceVals(st, v.(SliceV))...)
		for _, x := range sliceVals(st, args[1].(SliceV)) {
			if rvInvalid(x) {
				return reflPanic(st, site, "reflect: call of reflect.Value.Set on zero Value"), true
			}
			cells = append(cells, e.rvToCell(sl.Elem(), x))
		}
		o := st.alloc(site, 12, cells, sl.Elem())
		return one(st, e.rvMake(t, SliceV{o.id, 0, len(cells), len(cells)})), true
	case "(reflect.Value).MapKeys":
		if rvInvalid(args[0]) {
			return reflPanic(st, site, "reflect: call of reflect.Value.MapKeys on zero Value"), true
		}
		t, v := rvGet(args[0])
		mt, isM := t.Underlying().(*types.Map)
		if !isM {
			return reflPanic(st, site, "reflect: call of reflect.Value.MapKeys on "+reflKindNames[reflKindOf(t)]+" Value"), true
		}
		var cells []Value
		if m := v.(MapV); m.obj != 0 {
			for _, k := range e.mapOrder(st, site, st.obj(m.obj).keys) {
				cells = append(cells, e.rvMake(mt.Key(), k))
			}
		}
		o := st.alloc(site, 13, cells, e.reflValT)
		return one(st, SliceV{o.id, 0, len(cells), len(cells)}), true
	case "(reflect.Value).MapIndex":
		if rvInvalid(args[0]) {
			return reflPanic(st, site, "reflect: call of reflect.Value.MapIndex on zero Value"), true
		}
		t, v := rvGet(args[0])
		mt, isM := t.Underlying().(*types.Map)
		if !isM {
			return reflPanic(st, site, "reflect: call of reflect.Value.MapIndex on "+reflKindNames[reflKindOf(t)]+" Value"), true
		}
		_, kv := rvGet(args[1])
		brs := e.mapLookup(st, v.(MapV), kv, true, mt.Elem())
		var outs []Outcome
		for _, b := range brs {
			ns := st
			if len(brs) > 1 {
				if b.cond == FF {
					continue
				}
				ns = st.Fork()
				ns.Assume(b.cond)
			}
			tv := b.val.(TupleV)
			if tv[1] == TT {
				outs = append(outs, Outcome{st: ns, ret: e.rvOfCell(mt.Elem(), tv[0])})
			} else if tv[1] == FF {
				outs = append(outs, Outcome{st: ns, ret: e.rvZero()})
			} else {
				e.unsupported("reflect.Value.MapIndex: symbolic presence")
			}
		}
		return outs, true
	case "(reflect.Value).SetMapIndex":
		if rvInvalid(args[0]) || rvInvalid(args[1]) {
			return reflPanic(st, site, "reflect: call of reflect.Value.SetMapIndex on zero Value"), true
		}
		t, v := rvGet(args[0])
		mt, isM := t.Underlying().(*types.Map)
		if !isM {
			return reflPanic(st, site, "reflect: call of reflect.Value.SetMapIndex on "+reflKindNames[reflKindOf(t)]+" Value"), true
		}
		m := v.(MapV)
		if m.obj == 0 {
			return reflPanic(st, site, "assignment to entry in nil map"), true
		}
		if rvInvalid(args[2]) {
			e.unsupported("reflect.Value.SetMapIndex deleting a key")
		}
		_, kv := rvGet(args[1])
		brs := e.mapUpdate(st, m, kv, e.rvToCell(mt.Elem(), args[2]))
		var outs []Outcome
		for _, b := range brs {
			ns := st
			if len(brs) > 1 {
				if b.cond == FF {
					continue
				}
				ns = st.Fork()
				ns.Assume(b.cond)
			}
			if b.do != nil {
				b.do(ns)
			}
			outs = append(outs, Outcome{st: ns})
		}
		return outs, true
	}
	_ = strings.Contains
	return nil, false // not part of the model: the general dispatch decides (reflect.DeepEqual has its own model; the rest is refused there)
}
