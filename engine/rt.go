package main

// Engine side of the verifrt API used by harnesses.

import (
	"fmt"
	"go/types"
	"os"
	"sort"
	"strconv"
	"strings"

	"golang.org/x/tools/go/ssa"
)

var knownOpen = map[string]bool{}

// splitSeen / splitRange: for every variable handed to verifrt.Split, the values
// explored on some path and the declared range. A value never explored means
// part of the case split was lost.
var (
	splitSeen  = map[string]map[uint64]bool{}
	splitRange = map[string][2]uint64{}
)

func splitGaps() []string {
	var gaps []string
	for name, r := range splitRange {
		for v := r[0]; v <= r[1]; v++ {
			if !splitSeen[name][v] {
				gaps = append(gaps, fmt.Sprintf("%s=%d", name, v))
			}
		}
	}
	sort.Strings(gaps)
	return gaps
}

// choiceOpts: options each named choice was declared with.
var choiceOpts = map[string][]string{}

type watchRec struct {
	name string
	t    *Term
	s    *Str
}

type knownRec struct {
	id   string
	cond *Term
}

func mergeKnown(g *Term, a, b []knownRec) []knownRec {
	if len(a) == 0 && len(b) == 0 {
		return nil
	}
	m := map[string][2]*Term{}
	var ids []string
	for _, k := range a {
		m[k.id] = [2]*Term{k.cond, FF}
		ids = append(ids, k.id)
	}
	for _, k := range b {
		if v, ok := m[k.id]; ok {
			m[k.id] = [2]*Term{v[0], k.cond}
		} else {
			m[k.id] = [2]*Term{FF, k.cond}
			ids = append(ids, k.id)
		}
	}
	sort.Strings(ids)
	var out []knownRec
	for _, id := range ids {
		out = append(out, knownRec{id, Ite(g, m[id][0], m[id][1])})
	}
	return out
}

func (e *Engine) rtCall(name string, args []Value, st *State, depth int, site ssa.Instruction) []Outcome {
	str := func(i int) string {
		s, ok := cstr(args[i])
		if !ok {
			e.unsupported("verifrt.%s: argument %d must be a constant string", name, i)
		}
		return s
	}
	num := func(i int) int64 {
		v, ok := cint(args[i])
		if !ok {
			e.unsupported("verifrt.%s: argument %d must be a constant int", name, i)
		}
		return v
	}
	switch name {
	case "Native":
		return one(st, FF)
	case "Param":
		if v, ok := harnessParams[str(0)]; ok {
			n, err := strconv.Atoi(v)
			if err == nil {
				return one(st, i64(n))
			}
		}
		return one(st, args[1])
	case "Int":
		lo, hi := num(1), num(2)
		if lo == hi {
			return one(st, i64(int(lo)))
		}
		if lo >= 0 {
			return one(st, NewVarRange(str(0), 64, uint64(lo), uint64(hi)))
		}
		v := NewVar(str(0), 64)
		AddAxiom(Sle(BVs(lo, 64), v))
		AddAxiom(Sle(v, BVs(hi, 64)))
		return one(st, v)
	case "Byte":
		return one(st, NewVar(str(0), 8))
	case "Rune":
		return one(st, NewVarRange(str(0), 32, 0, 0x10FFFF))
	case "Bool":
		return one(st, NewVar(str(0), 0))
	case "Bytes":
		return one(st, symStr(str(0), int(num(1))))
	case "BytesIn":
		// like Bytes, every byte declared with the range [lo,hi] (decided by the engine's interval / small-domain evaluation)
		n, lo, hi := int(num(1)), uint64(num(2)), uint64(num(3))
		b := make([]*Term, n)
		for i := range b {
			b[i] = NewVarRange(fmt.Sprintf("%s[%d]", str(0), i), 8, lo, hi)
		}
		return one(st, strFromBytes(BV(uint64(n), 64), b))
	case "Choice":
		sv := args[1].(SliceV)
		var opts []string
		for _, v := range sliceVals(st, sv) {
			s, ok := cstr(v)
			if !ok {
				e.unsupported("verifrt.Choice options must be constants")
			}
			opts = append(opts, s)
		}
		if len(opts) == 0 {
			e.unsupported("verifrt.Choice without options")
		}
		if len(opts) == 1 {
			return one(st, strConst(opts[0]))
		}
		if prev, ok := choiceOpts[str(0)]; ok && !sameOpts(prev, opts) {
			e.unsupported("verifrt.Choice(%q) declared twice with different options %q and %q", str(0), prev, opts)
		}
		choiceOpts[str(0)] = opts
		sel := NewVarRange(str(0), 8, 0, uint64(len(opts)-1))
		return one(st, strChoice(sel, opts))
	case "ChoiceAt":
		sel := args[0].(*Term)
		var opts []string
		for _, v := range sliceVals(st, args[1].(SliceV)) {
			s, ok := cstr(v)
			if !ok {
				e.unsupported("verifrt.ChoiceAt options must be constants")
			}
			opts = append(opts, s)
		}
		return one(st, strChoice(sel, opts))
	case "Assume":
		c := args[0].(*Term)
		if c == FF {
			return nil
		}
		st.Assume(c)
		return one(st, nil)
	case "Assert":
		e.assert(st, args[0].(*Term), str(1), site)
		return one(st, nil)
	case "Fail":
		e.assert(st, FF, str(0), site)
		return nil
	case "Cover":
		e.cover(st, str(0))
		return one(st, nil)
	case "Show":
		return one(st, nil)
	case "Watch":
		switch x := args[1].(IfaceV).v.(type) {
		case *Term:
			st.watch = append(st.watch[:len(st.watch):len(st.watch)], watchRec{str(0), x, nil})
		case *Str:
			st.watch = append(st.watch[:len(st.watch):len(st.watch)], watchRec{str(0), nil, x})
		}
		return one(st, nil)
	case "Known":
		if !knownOpen[str(0)] {
			return one(st, nil)
		}
		st.pending = append(st.pending[:len(st.pending):len(st.pending)], knownRec{str(0), args[1].(*Term)})
		return one(st, nil)
	case "KnownPanic":
		if !knownOpen[str(0)] {
			return one(st, nil)
		}
		st.pknown = append(st.pknown[:len(st.pknown):len(st.pknown)], knownRec{str(0), args[1].(*Term)})
		return one(st, nil)
	case "ClearKnown":
		st.pknown = nil
		st.pending = nil
		return one(st, nil)
	case "Stub":
		target := str(0)
		iv := args[1].(IfaceV)
		e.stubs[target] = iv.v.(*FuncV)
		delete(st.calls, "unstub:"+target)
		return one(st, nil)
	case "LiftCall":
		e.liftFns[str(0)] = true
		return one(st, nil)
	case "MergeIn":
		e.mergeFns[str(0)] = true
		return one(st, nil)
	case "Unstub":
		// per path: other paths of a forking harness may still be inside the code that uses the stub
		st.calls["unstub:"+str(0)] = 1
		return one(st, nil)
	case "Freeze":
		e.freeze(st)
		return one(st, nil)
	case "Commit":
		// everything allocated so far becomes part of the shared base layer
		for id, o := range st.heap {
			o.stamp = -1
			baseHeap[id] = o
		}
		st.heap = map[int]*Object{}
		return one(st, nil)
	case "SetOpt":
		v := int(num(1))
		switch str(0) {
		case "feas":
			e.feas = v != 0
		case "unwind":
			e.unwind = v
		case "depth":
			e.maxDepth = v
		case "merge":
			e.mergeOn = v != 0
		case "maporder":
			e.mapOrderPolicy = v
		case "realquote":
			// strconv.Quote is executed from the library's source instead of being an opaque string
			e.realQuote = v != 0
		default:
			e.unsupported("verifrt.SetOpt(%q)", str(0))
		}
		return one(st, nil)
	case "Note":
		k := str(0)
		v := num(1)
		if v > e.notes[k] {
			e.notes[k] = v
		}
		return one(st, nil)
	case "Split", "SplitFeasible":
		// case split an int into its feasible concrete values (SplitFeasible: values that are infeasible
		// on every path are not counted as gaps - the caller splits only the paths that got this far)
		t := args[0].(*Term)
		if t.op == OpConst {
			return one(st, t)
		}
		if t.hi-t.lo > 64 {
			e.unsupported("verifrt.Split over a range of %d values", t.hi-t.lo)
		}
		var outs []Outcome
		for v := t.lo; v <= t.hi; v++ {
			c := Eq(t, BV(v, t.w))
			if c == FF {
				continue
			}
			ns := st.Fork()
			ns.Assume(c)
			if e.solver.Check(ns.pc) == ResUnsat {
				continue
			}
			if t.op == OpVar && name == "Split" {
				// coverage of case splits: which values of the declared range were taken
				if splitSeen[t.name] == nil {
					splitSeen[t.name] = map[uint64]bool{}
					splitRange[t.name] = [2]uint64{t.lo, t.hi}
				}
				splitSeen[t.name][v] = true
			}
			outs = append(outs, Outcome{st: ns, ret: BV(v, t.w)})
		}
		return outs
	case "SplitStr":
		// case split a choice string into its options
		s := args[0].(*Str)
		if s.isC {
			return one(st, s)
		}
		if s.sel == nil {
			e.unsupported("verifrt.SplitStr on a non-choice string")
		}
		var outs []Outcome
		for k, o := range s.opts {
			c := Eq(s.sel, BV(uint64(k), s.sel.w))
			ns := st.Fork()
			ns.Assume(c)
			if e.solver.Check(ns.pc) == ResUnsat {
				continue
			}
			outs = append(outs, Outcome{st: ns, ret: strConst(o)})
		}
		return outs
	case "Poke", "Peek":
		iv := args[0].(IfaceV)
		p := iv.v.(Ptr)
		stt, ok := iv.t.(*types.Pointer).Elem().Underlying().(*types.Struct)
		if !ok {
			e.unsupported("verifrt.%s: not a pointer to struct", name)
		}
		fname := str(1)
		idx := -1
		for i := 0; i < stt.NumFields(); i++ {
			if stt.Field(i).Name() == fname {
				idx = i
			}
		}
		if idx < 0 {
			e.unsupported("verifrt.%s: no field %s in %s", name, fname, iv.t)
		}
		fp := Ptr{obj: p.obj, path: append(append([]int(nil), p.path...), idx)}
		ft := stt.Field(idx).Type()
		w, signed, isInt := intWidth(ft)
		if !isInt {
			e.unsupported("verifrt.%s: field %s is not an integer", name, fname)
		}
		if name == "Peek" {
			v := e.load(st, fp).(*Term)
			if signed {
				return one(st, SExt(v, 64))
			}
			return one(st, ZExt(v, 64))
		}
		v := args[2].(*Term)
		if w < 64 {
			v = Trunc(v, w)
		}
		e.store(st, fp, v)
		return one(st, nil)
	case "IsConcrete":
		switch x := args[0].(IfaceV).v.(type) {
		case *Term:
			return one(st, Bool(x.op == OpConst))
		case *Str:
			return one(st, Bool(x.isC))
		}
		return one(st, TT)
	}
	e.unsupported("unknown verifrt function %s", name)
	return nil
}

func (e *Engine) cover(st *State, label string) {
	e.coverSeen[label] = true
	if _, ok := e.covers[label]; ok {
		return
	}
	res, model := e.solver.Model(st.pc)
	if res == ResSat {
		e.covers[label] = model
	}
}

func (e *Engine) assert(st *State, c *Term, label string, site ssa.Instruction) {
	pending := st.pending
	st.pending = nil
	if c == TT {
		return
	}
	e.stack = append(e.stack, "assert:"+label)
	defer func() { e.stack = e.stack[:len(e.stack)-1] }()
	bad := append(append([]*Term(nil), st.pc...), Not(c))
	pos := "?"
	if site != nil {
		pos = e.posStr(site.Pos())
	}
	// unlisted failures
	q := bad
	for _, k := range pending {
		q = append(q, Not(k.cond))
	}
	key := label
	if _, dup := e.violSeen[key]; !dup {
		res, model := e.solver.Model(q)
		switch res {
		case ResSat:
			e.violSeen[key] = true
			e.violations = append(e.violations, &Violation{Label: label, Model: model, Pos: pos})
			if os.Getenv("GOSYM_DEBUG") != "" {
				memo := map[*Term]uint64{}
				for _, w := range st.watch {
					if w.t != nil {
						fmt.Fprintf(os.Stderr, "  watch %s = %d\n", w.name, int64(evalTerm(w.t, model, memo)))
					} else {
						fmt.Fprintf(os.Stderr, "  watch %s = %q\n", w.name, w.s.eval(model, memo))
					}
				}
			}
		case ResUnknown:
			e.undecided = append(e.undecided, fmt.Sprintf("assert %s at %s: solver unknown", label, pos))
		}
	}
	for _, k := range pending {
		kk := label + "|" + k.id
		if _, dup := e.violSeen[kk]; dup {
			continue
		}
		res, model := e.solver.Model(append(append([]*Term(nil), bad...), k.cond))
		if res == ResSat {
			e.violSeen[kk] = true
			e.knownHits = append(e.knownHits, &Violation{Label: label, Known: k.id, Model: model, Pos: pos})
		}
	}
	e.asserts++
	// paths on which a listed finding explains the failure go on, so that the
	// assertions after this one are still checked on them
	cont := c
	for _, k := range pending {
		cont = Or(cont, k.cond)
	}
	if cont == FF {
		return
	}
	st.Assume(cont)
}

// panicOutcome turns a panic outcome at the top level into violations.
func (e *Engine) panicOutcome(o Outcome) {
	label := "panic:" + o.pan.kind
	pos := e.posStr(o.pan.pos)
	st := o.st
	q := append([]*Term(nil), st.pc...)
	for _, k := range st.pknown {
		q = append(q, Not(k.cond))
	}
	key := label + "@" + pos
	if !e.violSeen[key] {
		res, model := e.solver.Model(q)
		switch res {
		case ResSat:
			e.violSeen[key] = true
			e.violations = append(e.violations, &Violation{Label: label, Model: model, Pos: pos, Msg: o.pan.msg})
		case ResUnknown:
			e.undecided = append(e.undecided, fmt.Sprintf("%s at %s: solver unknown", label, pos))
		}
	}
	for _, k := range st.pknown {
		kk := key + "|" + k.id
		if e.violSeen[kk] {
			continue
		}
		res, model := e.solver.Model(append(append([]*Term(nil), st.pc...), k.cond))
		if res == ResSat {
			e.violSeen[kk] = true
			e.knownHits = append(e.knownHits, &Violation{Label: label, Known: k.id, Model: model, Pos: pos, Msg: o.pan.msg})
		}
	}
}

func (e *Engine) freeze(st *State) {
	for id, o := range st.heap {
		o.frozen = true
		o.stamp = -1
		baseHeap[id] = o
	}
	for _, o := range baseHeap {
		o.frozen = true
	}
	st.heap = map[int]*Object{}
	e.frozen = true
	frozenWrite = func(s *State, o *Object) {
		where := strings.Join(lastN(e.stack, 3), " > ")
		key := fmt.Sprintf("frozen-write|%s", where)
		if e.violSeen[key] {
			return
		}
		res, model := e.solver.Model(s.pc)
		if res == ResSat {
			e.violSeen[key] = true
			e.violations = append(e.violations, &Violation{Label: "frozen-write", Model: model, Pos: where, Msg: fmt.Sprintf("store into frozen object %d (%v)", o.id, o.elemT)})
		}
	}
}
