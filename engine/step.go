package main

import (
	"fmt"
	"go/token"
	"go/types"
	"math"

	"golang.org/x/tools/go/ssa"
)

func i64(v int) *Term { return BVs(int64(v), 64) }

// asInt converts an integer term of Go type t to 64 bits (sign/zero extended).
func to64(v *Term, t types.Type) *Term {
	_, signed, _ := intWidth(t)
	if v.w == 64 {
		return v
	}
	if signed {
		return SExt(v, 64)
	}
	return ZExt(v, 64)
}

func (e *Engine) step(f *frame, it *item, ins ssa.Instruction) ([]branch, bool) {
	fi := f.fi
	st := it.st
	get := func(v ssa.Value) Value { return e.get(fi, it.regs, v) }
	set := func(v Value) { it.regs[fi.regOf[ins.(ssa.Value)]] = v }

	switch x := ins.(type) {
	case *ssa.Alloc:
		t := x.Type().(*types.Pointer).Elem()
		if at, ok := t.Underlying().(*types.Array); ok {
			o := st.alloc(ins, 0, zero(at).(*ArrayV).e, at.Elem())
			set(Ptr{obj: o.id})
		} else {
			o := st.alloc(ins, 0, []Value{zero(t)}, t)
			set(Ptr{obj: o.id, path: []int{0}})
		}
	case *ssa.BinOp:
		v, cond, kind := e.binop(x.Op, get(x.X), get(x.Y), x.X.Type(), x.Y.Type())
		if cond != nil {
			if !e.require(f, it, cond, kind, "integer divide by zero", x.Pos()) {
				return nil, false
			}
		}
		set(v)
	case *ssa.UnOp:
		a := get(x.X)
		switch x.Op {
		case token.MUL:
			p := a.(Ptr)
			if p.obj == 0 {
				e.require(f, it, FF, "nil", "nil pointer dereference", x.Pos())
				return nil, false
			}
			set(e.load(st, p))
		case token.NOT:
			set(Not(a.(*Term)))
		case token.SUB:
			if fv, ok := a.(FloatV); ok {
				set(-fv)
			} else {
				set(Neg(a.(*Term)))
			}
		case token.XOR:
			set(BNot(a.(*Term)))
		default:
			e.unsupported("unop %s", x.Op)
		}
	case *ssa.Store:
		p := get(x.Addr).(Ptr)
		if p.obj == 0 {
			e.require(f, it, FF, "nil", "nil pointer dereference (store)", x.Pos())
			return nil, false
		}
		e.store(st, p, get(x.Val))
	case *ssa.FieldAddr:
		p := get(x.X).(Ptr)
		if p.obj == 0 {
			e.require(f, it, FF, "nil", "nil pointer dereference (field address)", x.Pos())
			return nil, false
		}
		if p.sym != nil {
			set(Ptr{obj: p.obj, path: p.path, sym: p.sym, post: append(append([]int(nil), p.post...), x.Field)})
			break
		}
		np := append(append([]int(nil), p.path...), x.Field)
		set(Ptr{obj: p.obj, path: np})
	case *ssa.Field:
		set(get(x.X).(*StructV).f[x.Field])
	case *ssa.IndexAddr:
		base := get(x.X)
		idx := to64(get(x.Index).(*Term), x.Index.Type())
		switch b := base.(type) {
		case SliceV:
			if !e.require(f, it, Ult(idx, i64(b.ln)), "index", fmt.Sprintf("index out of range [len %d]", b.ln), x.Pos()) {
				return nil, false
			}
			if idx.op == OpConst {
				set(Ptr{obj: b.obj, path: []int{b.off + int(idx.val)}})
			} else {
				set(Ptr{obj: b.obj, sym: Add(idx, i64(b.off))})
			}
		case Ptr:
			if b.obj == 0 {
				e.require(f, it, FF, "nil", "nil pointer dereference (index)", x.Pos())
				return nil, false
			}
			n := x.X.Type().Underlying().(*types.Pointer).Elem().Underlying().(*types.Array).Len()
			if !e.require(f, it, Ult(idx, i64(int(n))), "index", "array index out of range", x.Pos()) {
				return nil, false
			}
			if b.sym != nil {
				if idx.op != OpConst {
					e.unsupported("two symbolic indices in one address")
				}
				set(Ptr{obj: b.obj, path: b.path, sym: b.sym, post: append(append([]int(nil), b.post...), int(idx.val))})
			} else if idx.op == OpConst {
				set(Ptr{obj: b.obj, path: append(append([]int(nil), b.path...), int(idx.val))})
			} else {
				set(Ptr{obj: b.obj, path: b.path, sym: idx})
			}
		default:
			e.unsupported("IndexAddr on %T", base)
		}
	case *ssa.Index:
		base := get(x.X)
		idx := to64(get(x.Index).(*Term), x.Index.Type())
		switch b := base.(type) {
		case *Str:
			if !e.require(f, it, Ult(idx, b.Len()), "index", "string index out of range", x.Pos()) {
				return nil, false
			}
			set(b.Select(idx))
		case *ArrayV:
			if !e.require(f, it, Ult(idx, i64(len(b.e))), "index", "array index out of range", x.Pos()) {
				return nil, false
			}
			if idx.op == OpConst {
				set(b.e[idx.val])
			} else {
				r := b.e[len(b.e)-1]
				for k := len(b.e) - 2; k >= 0; k-- {
					m, ok := mergeVal(Eq(idx, i64(k)), b.e[k], r)
					if !ok {
						e.unsupported("symbolic index over unmergeable array")
					}
					r = m
				}
				set(r)
			}
		default:
			e.unsupported("Index on %T", base)
		}
	case *ssa.Lookup:
		base := get(x.X)
		if s, ok := base.(*Str); ok {
			idx := to64(get(x.Index).(*Term), x.Index.Type())
			if !e.require(f, it, Ult(idx, s.Len()), "index", "string index out of range", x.Pos()) {
				return nil, false
			}
			set(s.Select(idx))
			break
		}
		return e.mapLookup(st, base.(MapV), get(x.Index), x.CommaOk, x.X.Type().Underlying().(*types.Map).Elem()), true
	case *ssa.MapUpdate:
		m := get(x.Map).(MapV)
		if m.obj == 0 {
			e.require(f, it, FF, "nilmap", "assignment to entry in nil map", x.Pos())
			return nil, false
		}
		return e.mapUpdate(st, m, get(x.Key), get(x.Value)), true
	case *ssa.MakeMap:
		o := st.alloc(ins, 0, nil, nil)
		o.isMap = true
		set(MapV{o.id})
	case *ssa.MakeSlice:
		n, ok1 := get(x.Len).(*Term)
		c, ok2 := get(x.Cap).(*Term)
		if !ok1 || !ok2 || n.op != OpConst || c.op != OpConst {
			e.unsupported("make([]T) with symbolic length")
		}
		et := x.Type().Underlying().(*types.Slice).Elem()
		cells := make([]Value, int(c.SVal()))
		z := zero(et)
		for i := range cells {
			cells[i] = z
		}
		o := st.alloc(ins, 0, cells, et)
		set(SliceV{o.id, 0, int(n.SVal()), int(c.SVal())})
	case *ssa.MakeClosure:
		fn := x.Fn.(*ssa.Function)
		env := make([]Value, len(x.Bindings))
		for i, b := range x.Bindings {
			env[i] = get(b)
		}
		set(&FuncV{fn: fn, env: env})
	case *ssa.MakeInterface:
		set(IfaceV{x.X.Type(), get(x.X)})
	case *ssa.ChangeInterface:
		set(get(x.X))
	case *ssa.ChangeType:
		set(get(x.X))
	case *ssa.Convert:
		if isString(x.X.Type()) {
			// []byte(s) for a string whose length is symbolic: one branch per feasible length
			if sl, ok := x.Type().Underlying().(*types.Slice); ok {
				if w, _, _ := intWidth(sl.Elem()); w == 8 {
					if s := get(x.X).(*Str); s.Len().op != OpConst {
						n := s.Len()
						bs := s.bytesSlice()
						var brs []branch
						for k := 0; k <= s.Max(); k++ {
							c := Eq(n, i64(k))
							if c == FF {
								continue
							}
							cells := append([]Value(nil), termsToVals(bs[:k])...)
							o := st.alloc(ins, 100+k, cells, sl.Elem())
							brs = append(brs, branch{cond: c, val: SliceV{o.id, 0, k, k}})
						}
						return brs, true
					}
				}
			}
		}
		set(e.convert(st, ins, get(x.X), x.X.Type(), x.Type()))
	case *ssa.Extract:
		set(get(x.Tuple).(TupleV)[x.Index])
	case *ssa.Phi:
		// evaluated on the edge
	case *ssa.Slice:
		v, ok := e.sliceOp(f, it, x)
		if !ok {
			return nil, false
		}
		set(v)
	case *ssa.TypeAssert:
		iv := get(x.X).(IfaceV)
		ok := false
		if iv.t != nil {
			if types.IsInterface(x.AssertedType) {
				ok = types.Implements(iv.t, x.AssertedType.Underlying().(*types.Interface))
			} else {
				ok = types.Identical(iv.t, x.AssertedType)
			}
		}
		var val Value
		if ok {
			if types.IsInterface(x.AssertedType) {
				val = iv
			} else {
				val = iv.v
			}
		} else {
			val = zero(x.AssertedType)
		}
		if x.CommaOk {
			set(TupleV{val, Bool(ok)})
		} else {
			if !ok {
				e.require(f, it, FF, "typeassert", fmt.Sprintf("interface conversion: %v is not %s", iv.t, x.AssertedType), x.Pos())
				return nil, false
			}
			set(val)
		}
	case *ssa.Range:
		v := get(x.X)
		io := st.alloc(ins, 0, []Value{i64(0)}, nil)
		switch b := v.(type) {
		case *Str:
			set(&IterV{isStr: true, str: b, obj: io.id})
		case MapV:
			iv := &IterV{obj: io.id}
			if b.obj != 0 {
				mo := st.obj(b.obj)
				iv.keys = append([]Value(nil), mo.keys...)
				iv.mobj = b.obj
				iv.keys = e.mapOrder(st, ins, iv.keys)
			}
			set(iv)
		default:
			e.unsupported("range over %T", v)
		}
	case *ssa.Next:
		return e.next(f, it, x, get(x.Iter).(*IterV))
	case *ssa.DebugRef:
	default:
		e.unsupported("instruction %T: %s", ins, ins)
	}
	return nil, true
}

// ---------- binary operators ----------

func (e *Engine) binop(op token.Token, a, b Value, ta, tb types.Type) (Value, *Term, string) {
	switch x := a.(type) {
	case *Term:
		y, ok := b.(*Term)
		if !ok {
			e.unsupported("binop %s on term and %T", op, b)
		}
		if x.w == 0 {
			switch op {
			case token.EQL:
				return Eq(x, y), nil, ""
			case token.NEQ:
				return Not(Eq(x, y)), nil, ""
			case token.AND:
				return And(x, y), nil, ""
			case token.OR:
				return Or(x, y), nil, ""
			}
			e.unsupported("bool binop %s", op)
		}
		_, signed, _ := intWidth(ta)
		switch op {
		case token.ADD:
			return Add(x, y), nil, ""
		case token.SUB:
			return Sub(x, y), nil, ""
		case token.MUL:
			return Mul(x, y), nil, ""
		case token.QUO:
			nz := Not(Eq(y, BV(0, y.w)))
			if signed {
				return SDiv(x, y), nz, "div"
			}
			return UDiv(x, y), nz, "div"
		case token.REM:
			nz := Not(Eq(y, BV(0, y.w)))
			if signed {
				return SRem(x, y), nz, "div"
			}
			return URem(x, y), nz, "div"
		case token.AND:
			return BAnd(x, y), nil, ""
		case token.OR:
			return BOr(x, y), nil, ""
		case token.XOR:
			return BXor(x, y), nil, ""
		case token.AND_NOT:
			return BAnd(x, BNot(y)), nil, ""
		case token.SHL, token.SHR:
			// count: any integer type; Go: count >= width gives 0 (or sign fill)
			_, ysigned, _ := intWidth(tb)
			var y64 *Term
			if ysigned {
				y64 = SExt(y, 64)
			} else {
				y64 = ZExt(y, 64)
			}
			big := Ule(BV(uint64(x.w), 64), y64)
			var yw *Term
			if x.w == 64 {
				yw = y64
			} else {
				yw = Trunc(y64, x.w)
			}
			if op == token.SHL {
				return Ite(big, BV(0, x.w), Shl(x, yw)), nil, ""
			}
			if signed {
				return Ite(big, AShr(x, BV(uint64(x.w-1), x.w)), AShr(x, yw)), nil, ""
			}
			return Ite(big, BV(0, x.w), LShr(x, yw)), nil, ""
		case token.EQL:
			return Eq(x, y), nil, ""
		case token.NEQ:
			return Not(Eq(x, y)), nil, ""
		case token.LSS:
			if signed {
				return Slt(x, y), nil, ""
			}
			return Ult(x, y), nil, ""
		case token.LEQ:
			if signed {
				return Sle(x, y), nil, ""
			}
			return Ule(x, y), nil, ""
		case token.GTR:
			if signed {
				return Slt(y, x), nil, ""
			}
			return Ult(y, x), nil, ""
		case token.GEQ:
			if signed {
				return Sle(y, x), nil, ""
			}
			return Ule(y, x), nil, ""
		}
	case *Str:
		y := b.(*Str)
		switch op {
		case token.ADD:
			return strConcat(x, y), nil, ""
		case token.EQL:
			return strEq(x, y), nil, ""
		case token.NEQ:
			return Not(strEq(x, y)), nil, ""
		case token.LSS:
			return strLess(x, y), nil, ""
		case token.GTR:
			return strLess(y, x), nil, ""
		case token.LEQ:
			return Not(strLess(y, x)), nil, ""
		case token.GEQ:
			return Not(strLess(x, y)), nil, ""
		}
	case FloatV:
		y := b.(FloatV)
		switch op {
		case token.ADD:
			return x + y, nil, ""
		case token.SUB:
			return x - y, nil, ""
		case token.MUL:
			return x * y, nil, ""
		case token.QUO:
			return x / y, nil, ""
		case token.EQL:
			return Bool(x == y), nil, ""
		case token.NEQ:
			return Bool(x != y), nil, ""
		case token.LSS:
			return Bool(x < y), nil, ""
		case token.LEQ:
			return Bool(x <= y), nil, ""
		case token.GTR:
			return Bool(x > y), nil, ""
		case token.GEQ:
			return Bool(x >= y), nil, ""
		}
	default:
		eq := e.valEq(a, b)
		switch op {
		case token.EQL:
			return eq, nil, ""
		case token.NEQ:
			return Not(eq), nil, ""
		}
	}
	e.unsupported("binop %s on %T", op, a)
	return nil, nil, ""
}

// valEq is Go's == on comparable values.
func (e *Engine) valEq(a, b Value) *Term {
	switch x := a.(type) {
	case *Term:
		return Eq(x, b.(*Term))
	case *Str:
		return strEq(x, b.(*Str))
	case FloatV:
		return Bool(x == b.(FloatV))
	case Ptr:
		y := b.(Ptr)
		if x.obj != y.obj || !pathEq(x.path, y.path) {
			return FF
		}
		if x.sym == nil && y.sym == nil {
			return TT
		}
		if x.sym != nil && y.sym != nil {
			return Eq(x.sym, y.sym)
		}
		e.unsupported("pointer comparison with symbolic index")
	case IfaceV:
		y, ok := b.(IfaceV)
		if !ok {
			e.unsupported("iface == %T", b)
		}
		if x.t == nil || y.t == nil {
			return Bool(x.t == nil && y.t == nil)
		}
		if !types.Identical(x.t, y.t) {
			return FF
		}
		return e.valEq(x.v, y.v)
	case *StructV:
		y := b.(*StructV)
		r := TT
		for i := range x.f {
			r = And(r, e.valEq(x.f[i], y.f[i]))
		}
		return r
	case *ArrayV:
		y := b.(*ArrayV)
		r := TT
		for i := range x.e {
			r = And(r, e.valEq(x.e[i], y.e[i]))
		}
		return r
	case SliceV: // only comparison with nil
		y := b.(SliceV)
		if x.obj == 0 || y.obj == 0 {
			return Bool(x.obj == 0 && y.obj == 0)
		}
	case MapV:
		y := b.(MapV)
		if x.obj == 0 || y.obj == 0 {
			return Bool(x.obj == 0 && y.obj == 0)
		}
	case *FuncV:
		y := b.(*FuncV)
		if x == nil || y == nil {
			return Bool(x == nil && y == nil)
		}
	}
	e.unsupported("== on %T", a)
	return nil
}

// ---------- conversions ----------

func (e *Engine) convert(st *State, site ssa.Instruction, v Value, from, to types.Type) Value {
	fu, tu := from.Underlying(), to.Underlying()
	if wf, sf, ok := intWidth(from); ok {
		x := v.(*Term)
		if wt, _, ok := intWidth(to); ok {
			switch {
			case wt == wf:
				return x
			case wt < wf:
				return Trunc(x, wt)
			case sf:
				return SExt(x, wt)
			default:
				return ZExt(x, wt)
			}
		}
		if isFloat(to) {
			if x.op != OpConst {
				e.unsupported("int->float conversion of symbolic value")
			}
			if sf {
				return FloatV(float64(x.SVal()))
			}
			return FloatV(float64(x.val))
		}
		if isString(to) {
			// string(rune)
			var r64 *Term
			if sf {
				r64 = SExt(x, 64)
			} else {
				r64 = ZExt(x, 64)
			}
			return e.runeToString(Trunc(r64, 32))
		}
	}
	if isFloat(from) {
		fv := v.(FloatV)
		if isFloat(to) {
			if to.Underlying().(*types.Basic).Kind() == types.Float32 {
				return FloatV(float64(float32(fv)))
			}
			return fv
		}
		if wt, st, ok := intWidth(to); ok {
			if st {
				return BVs(int64(fv), wt)
			}
			return BV(uint64(fv), wt)
		}
	}
	if isString(from) {
		s := v.(*Str)
		if isString(to) {
			return s
		}
		if sl, ok := tu.(*types.Slice); ok {
			n := s.Len()
			if n.op != OpConst {
				e.unsupported("[]byte/[]rune(string) with symbolic length")
			}
			if w, _, _ := intWidth(sl.Elem()); w == 8 {
				cells := append([]Value(nil), termsToVals(s.bytesSlice()[:n.val])...)
				o := st.alloc(site, 1, cells, sl.Elem())
				return SliceV{o.id, 0, len(cells), len(cells)}
			}
			if !s.isC {
				e.unsupported("[]rune(symbolic string)")
			}
			var cells []Value
			for _, r := range s.c {
				cells = append(cells, BVs(int64(r), 32))
			}
			o := st.alloc(site, 1, cells, sl.Elem())
			return SliceV{o.id, 0, len(cells), len(cells)}
		}
	}
	if sl, ok := fu.(*types.Slice); ok && isString(to) {
		s := v.(SliceV)
		if s.obj == 0 {
			return emptyStr
		}
		o := st.obj(s.obj)
		if w, _, _ := intWidth(sl.Elem()); w == 8 {
			bs := make([]*Term, s.ln)
			for i := range bs {
				bs[i] = o.cells[s.off+i].(*Term)
			}
			return strFromBytes(i64(s.ln), bs)
		}
		// []rune -> string
		res := emptyStr
		for i := 0; i < s.ln; i++ {
			res = strConcat(res, e.runeToString(o.cells[s.off+i].(*Term)))
		}
		return res
	}
	if _, ok := fu.(*types.Pointer); ok {
		return v // unsafe.Pointer conversions etc.
	}
	if b, ok := fu.(*types.Basic); ok && b.Kind() == types.UnsafePointer {
		return v
	}
	e.unsupported("convert %s -> %s", from, to)
	return nil
}

func termsToVals(ts []*Term) []Value {
	r := make([]Value, len(ts))
	for i, t := range ts {
		r[i] = t
	}
	return r
}

// runeToString encodes a 32-bit rune term as UTF-8 (invalid runes become U+FFFD).
func (e *Engine) runeToString(r *Term) *Str {
	if r.op == OpConst {
		return strConst(string(rune(int32(r.val))))
	}
	if r.leaves > 0 && r.leaves <= 64 {
		// ite over constants
		var rec func(t *Term) *Str
		rec = func(t *Term) *Str {
			if t.op == OpConst {
				return strConst(string(rune(int32(t.val))))
			}
			return strIte(t.a[0], rec(t.a[1]), rec(t.a[2]))
		}
		return rec(r)
	}
	c := func(v uint64) *Term { return BV(v, 32) }
	b8 := func(t *Term) *Term { return Trunc(t, 8) }
	isSur := And(Ule(c(0xD800), r), Ule(r, c(0xDFFF)))
	bad := Or(Ult(c(0x10FFFF), r), isSur)
	rr := Ite(bad, c(0xFFFD), r)
	one := Ult(rr, c(0x80))
	two := Ult(rr, c(0x800))
	three := Ult(rr, c(0x10000))
	n := Ite(one, i64(1), Ite(two, i64(2), Ite(three, i64(3), i64(4))))
	cont := func(sh uint64) *Term { return b8(BOr(c(0x80), BAnd(LShr(rr, c(sh)), c(0x3F)))) }
	b0 := Ite(one, b8(rr), Ite(two, b8(BOr(c(0xC0), LShr(rr, c(6)))), Ite(three, b8(BOr(c(0xE0), LShr(rr, c(12)))), b8(BOr(c(0xF0), LShr(rr, c(18)))))))
	b1 := Ite(two, cont(0), Ite(three, cont(6), cont(12)))
	b2 := Ite(three, cont(0), cont(6))
	b3 := cont(0)
	return strFromBytes(n, []*Term{b0, b1, b2, b3})
}

// ---------- slicing ----------

func (e *Engine) sliceOp(f *frame, it *item, x *ssa.Slice) (Value, bool) {
	fi := f.fi
	st := it.st
	base := e.get(fi, it.regs, x.X)
	optInt := func(v ssa.Value) *Term {
		if v == nil {
			return nil
		}
		return to64(e.get(fi, it.regs, v).(*Term), v.Type())
	}
	lo, hi, mx := optInt(x.Low), optInt(x.High), optInt(x.Max)
	switch b := base.(type) {
	case *Str:
		if lo == nil {
			lo = i64(0)
		}
		if hi == nil {
			hi = b.Len()
		}
		ok := And(Ule(lo, hi), Ule(hi, b.Len()))
		if !e.require(f, it, ok, "slice", "slice bounds out of range (string)", x.Pos()) {
			return nil, false
		}
		return b.Slice(lo, hi), true
	case SliceV:
		if lo == nil {
			lo = i64(0)
		}
		if hi == nil {
			hi = i64(b.ln)
		}
		capT := i64(b.cp)
		if mx == nil {
			mx = capT
		}
		ok := And(And(Ule(lo, hi), Ule(hi, mx)), Ule(mx, capT))
		if !e.require(f, it, ok, "slice", fmt.Sprintf("slice bounds out of range [cap %d]", b.cp), x.Pos()) {
			return nil, false
		}
		if lo.op != OpConst || hi.op != OpConst || mx.op != OpConst {
			return e.sliceSplit(f, it, x, b, lo, hi, mx)
		}
		if b.obj == 0 {
			return SliceV{}, true
		}
		return SliceV{b.obj, b.off + int(lo.val), int(hi.val - lo.val), int(mx.val - lo.val)}, true
	case Ptr:
		if b.obj == 0 {
			e.require(f, it, FF, "nil", "slice of nil array pointer", x.Pos())
			return nil, false
		}
		if len(b.path) != 0 {
			e.unsupported("slice of nested array")
		}
		n := len(st.obj(b.obj).cells)
		if lo == nil {
			lo = i64(0)
		}
		if hi == nil {
			hi = i64(n)
		}
		if mx == nil {
			mx = i64(n)
		}
		if lo.op != OpConst || hi.op != OpConst || mx.op != OpConst {
			e.unsupported("array slice with symbolic bounds")
		}
		if !(lo.val <= hi.val && hi.val <= mx.val && mx.val <= uint64(n)) {
			e.require(f, it, FF, "slice", "slice bounds out of range (array)", x.Pos())
			return nil, false
		}
		return SliceV{b.obj, int(lo.val), int(hi.val - lo.val), int(mx.val - lo.val)}, true
	}
	e.unsupported("slice of %T", base)
	return nil, false
}

// ---------- maps ----------

func (e *Engine) keyEq(a, b Value) *Term {
	return e.valEq(a, b)
}

func (e *Engine) mapLookup(st *State, m MapV, key Value, commaOk bool, elemT types.Type) []branch {
	z := zero(elemT)
	mk := func(v Value, ok bool) Value {
		if commaOk {
			return TupleV{v, Bool(ok)}
		}
		return v
	}
	if m.obj == 0 {
		return []branch{{cond: TT, val: mk(z, false)}}
	}
	o := st.obj(m.obj)
	var brs []branch
	none := TT
	for i, k := range o.keys {
		eq := e.keyEq(key, k)
		if eq == FF {
			continue
		}
		if eq == TT {
			return []branch{{cond: TT, val: mk(o.cells[i], true)}}
		}
		brs = append(brs, branch{cond: eq, val: mk(o.cells[i], true)})
		none = And(none, Not(eq))
	}
	if len(brs) == 0 {
		return []branch{{cond: TT, val: mk(z, false)}}
	}
	// try to fold into one value
	brs = append(brs, branch{cond: none, val: mk(z, false)})
	acc := brs[len(brs)-1].val
	okAll := e.mergeOn
	for i := len(brs) - 2; i >= 0 && okAll; i-- {
		mv, ok := mergeVal(brs[i].cond, brs[i].val, acc)
		if !ok {
			okAll = false
			break
		}
		acc = mv
	}
	if okAll {
		return []branch{{cond: TT, val: acc}}
	}
	return brs
}

func (e *Engine) mapUpdate(st *State, m MapV, key, val Value) []branch {
	o := st.obj(m.obj)
	var brs []branch
	none := TT
	for i, k := range o.keys {
		eq := e.keyEq(key, k)
		if eq == FF {
			continue
		}
		i := i
		do := func(s *State) { s.wobj(m.obj).cells[i] = val }
		if eq == TT {
			return []branch{{cond: TT, do: do}}
		}
		brs = append(brs, branch{cond: eq, do: do})
		none = And(none, Not(eq))
	}
	ins := func(s *State) {
		w := s.wobj(m.obj)
		w.keys = append(w.keys[:len(w.keys):len(w.keys)], key)
		w.cells = append(w.cells[:len(w.cells):len(w.cells)], val)
	}
	brs = append(brs, branch{cond: none, do: ins})
	return brs
}

func (e *Engine) mapDelete(st *State, m MapV, key Value) []branch {
	if m.obj == 0 {
		return []branch{{cond: TT}}
	}
	o := st.obj(m.obj)
	var brs []branch
	none := TT
	for i, k := range o.keys {
		eq := e.keyEq(key, k)
		if eq == FF {
			continue
		}
		i := i
		do := func(s *State) {
			w := s.wobj(m.obj)
			w.keys = append(append([]Value(nil), w.keys[:i]...), w.keys[i+1:]...)
			w.cells = append(append([]Value(nil), w.cells[:i]...), w.cells[i+1:]...)
		}
		if eq == TT {
			return []branch{{cond: TT, do: do}}
		}
		brs = append(brs, branch{cond: eq, do: do})
		none = And(none, Not(eq))
	}
	brs = append(brs, branch{cond: none})
	return brs
}

// mapOrder chooses the iteration order of a map range. Default: insertion
// order; with permute mode, an order selected by the engine's permutation seed.
func (e *Engine) mapOrder(st *State, site ssa.Instruction, keys []Value) []Value {
	n := len(keys)
	if n < 2 || e.mapOrderPolicy == 0 {
		return keys
	}
	out := make([]Value, 0, n)
	switch e.mapOrderPolicy {
	case 1: // reversed
		for i := n - 1; i >= 0; i-- {
			out = append(out, keys[i])
		}
	case 2: // rotated by one
		out = append(out, keys[1:]...)
		out = append(out, keys[0])
	case 3: // odd positions first, then even ones
		for i := 1; i < n; i += 2 {
			out = append(out, keys[i])
		}
		for i := 0; i < n; i += 2 {
			out = append(out, keys[i])
		}
	default:
		return keys
	}
	return out
}

// ---------- iteration ----------

func (e *Engine) next(f *frame, it *item, x *ssa.Next, iv *IterV) ([]branch, bool) {
	st := it.st
	fi := f.fi
	set := func(v Value) { it.regs[fi.regOf[x]] = v }
	pos := st.obj(iv.obj).cells[0].(*Term)
	if iv.isStr {
		s := iv.str
		if s.isC && pos.op == OpConst {
			p := int(pos.val)
			if p >= len(s.c) {
				set(TupleV{FF, i64(0), BVs(0, 32)})
				return nil, true
			}
			r, size := decodeRuneNative(s.c[p:])
			st.wobj(iv.obj).cells[0] = i64(p + size)
			set(TupleV{TT, i64(p), BVs(int64(r), 32)})
			return nil, true
		}
		more := Ult(pos, s.Len())
		r, size := symDecodeRune(s, pos)
		st.wobj(iv.obj).cells[0] = Ite(more, Add(pos, size), pos)
		set(TupleV{more, pos, r})
		return nil, true
	}
	p := int(pos.val)
	// skip keys deleted meanwhile
	for p < len(iv.keys) {
		found := false
		if iv.mobj != 0 {
			for _, k := range st.obj(iv.mobj).keys {
				if sameVal(k, iv.keys[p]) {
					found = true
					break
				}
			}
		}
		if found {
			break
		}
		p++
	}
	if p >= len(iv.keys) {
		kt := x.Type().(*types.Tuple)
		set(TupleV{FF, zeroOrNil(kt.At(1).Type()), zeroOrNil(kt.At(2).Type())})
		return nil, true
	}
	k := iv.keys[p]
	var v Value
	mo := st.obj(iv.mobj)
	for i, kk := range mo.keys {
		if sameVal(kk, k) {
			v = mo.cells[i]
		}
	}
	st.wobj(iv.obj).cells[0] = i64(p + 1)
	set(TupleV{TT, k, v})
	return nil, true
}

var _ = math.MaxInt32

func zeroOrNil(t types.Type) Value {
	if b, ok := t.(*types.Basic); ok && b.Kind() == types.Invalid {
		return nil
	}
	return zero(t)
}

// sliceSplit handles s[lo:hi:max] on a slice when a bound is symbolic but can
// only take a few values: the path is split into one item per feasible
// combination (the bounds check itself was discharged by the caller).
func (e *Engine) sliceSplit(f *frame, it *item, x *ssa.Slice, b SliceV, lo, hi, mx *Term) (Value, bool) {
	vals := func(t *Term) []vg {
		vs, ok := getVS(t)
		if !ok || len(vs) > 16 {
			e.unsupported("slice expression with symbolic bounds (not a small set of values)")
		}
		return vs
	}
	fi := f.fi
	r := fi.regOf[x]
	n := 0
	for _, l := range vals(lo) {
		for _, h := range vals(hi) {
			for _, m := range vals(mx) {
				c := And(And(l.g, h.g), m.g)
				if c == FF || !(l.val <= h.val && h.val <= m.val && m.val <= uint64(b.cp)) {
					continue
				}
				if e.solver.Check(append(append([]*Term(nil), it.st.pc...), c)) == ResUnsat {
					continue
				}
				ns := it.st.Fork()
				ns.Assume(c)
				ni := &item{st: ns, regs: append([]Value(nil), it.regs...), blk: it.blk, idx: it.idx + 1, iters: it.iters, pcEntry: it.pcEntry, defers: it.defers}
				if b.obj == 0 {
					ni.regs[r] = SliceV{}
				} else {
					ni.regs[r] = SliceV{b.obj, b.off + int(l.val), int(h.val - l.val), int(m.val - l.val)}
				}
				f.work = append(f.work, ni)
				n++
			}
		}
	}
	e.forks++
	return nil, false // the current item ends here; its successors were pushed
}
