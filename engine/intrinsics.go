package main

import (
	"fmt"
	"go/types"
	"math"
	"sort"
	"strconv"
	"strings"
	"unicode"
	"unicode/utf8"

	"golang.org/x/tools/go/ssa"
)

const rtPkg = "verifh/verifrt."

func one(st *State, v Value) []Outcome { return []Outcome{{st: st, ret: v}} }

func cstr(v Value) (string, bool) {
	s, ok := v.(*Str)
	if !ok || !s.isC {
		return "", false
	}
	return s.c, true
}

func cint(v Value) (int64, bool) {
	t, ok := v.(*Term)
	if !ok || t.op != OpConst {
		return 0, false
	}
	return t.SVal(), true
}

func decodeRuneNative(s string) (rune, int) { return utf8.DecodeRuneInString(s) }

// symDecodeRune models utf8.DecodeRuneInString(s[pos:]) on a symbolic string.
// Returns (rune 32-bit, size 64-bit). The caller guarantees pos <= len.
func symDecodeRune(s *Str, pos *Term) (*Term, *Term) {
	avail := Sub(s.Len(), pos)
	at := func(k int) *Term { return ZExt(s.Select(Add(pos, i64(k))), 32) }
	c := func(v uint64) *Term { return BV(v, 32) }
	in := func(x *Term, lo, hi uint64) *Term { return And(Ule(c(lo), x), Ule(x, c(hi))) }
	b0, b1, b2, b3 := at(0), at(1), at(2), at(3)
	ascii := Ult(b0, c(0x80))
	is2 := in(b0, 0xC2, 0xDF)
	is3 := in(b0, 0xE0, 0xEF)
	is4 := in(b0, 0xF0, 0xF4)
	lo := Ite(Eq(b0, c(0xE0)), c(0xA0), Ite(Eq(b0, c(0xF0)), c(0x90), c(0x80)))
	hi := Ite(Eq(b0, c(0xED)), c(0x9F), Ite(Eq(b0, c(0xF4)), c(0x8F), c(0xBF)))
	ok1 := And(Ule(lo, b1), Ule(b1, hi))
	ok2 := in(b2, 0x80, 0xBF)
	ok3 := in(b3, 0x80, 0xBF)
	has := func(n int) *Term { return Ule(i64(n), avail) }
	v2 := And(And(is2, has(2)), ok1)
	v3 := And(And(And(is3, has(3)), ok1), ok2)
	v4 := And(And(And(And(is4, has(4)), ok1), ok2), ok3)
	m := func(x *Term, k uint64) *Term { return BAnd(x, c(k)) }
	sh := func(x *Term, k uint64) *Term { return Shl(x, c(k)) }
	r2 := BOr(sh(m(b0, 0x1F), 6), m(b1, 0x3F))
	r3 := BOr(BOr(sh(m(b0, 0x0F), 12), sh(m(b1, 0x3F), 6)), m(b2, 0x3F))
	r4 := BOr(BOr(BOr(sh(m(b0, 0x07), 18), sh(m(b1, 0x3F), 12)), sh(m(b2, 0x3F), 6)), m(b3, 0x3F))
	empty := Eq(avail, i64(0))
	r := Ite(empty, c(0xFFFD), Ite(ascii, b0, Ite(v2, r2, Ite(v3, r3, Ite(v4, r4, c(0xFFFD))))))
	size := Ite(empty, i64(0), Ite(ascii, i64(1), Ite(v2, i64(2), Ite(v3, i64(3), Ite(v4, i64(4), i64(1))))))
	return r, size
}

func (e *Engine) errorsNew(st *State, site ssa.Instruction, msg *Str) Value {
	pkg := e.prog.ImportedPackage("errors")
	if pkg == nil {
		e.unsupported("package errors not loaded")
	}
	t := pkg.Type("errorString").Type()
	o := st.alloc(site, 7, []Value{&StructV{[]Value{msg}}}, t)
	return IfaceV{types.NewPointer(t), Ptr{obj: o.id, path: []int{0}}}
}

// sliceVals reads the elements of a slice value.
func sliceVals(st *State, s SliceV) []Value {
	if s.obj == 0 {
		return nil
	}
	o := st.obj(s.obj)
	return o.cells[s.off : s.off+s.ln]
}

func (e *Engine) newSlice(st *State, site interface{}, tag int, vals []Value, et types.Type) SliceV {
	o := st.alloc(site, tag, append([]Value(nil), vals...), et)
	return SliceV{o.id, 0, len(vals), len(vals)}
}

// intrinsic dispatches engine-level models. ok=false: not an intrinsic.
func (e *Engine) intrinsic(fn *ssa.Function, name string, args []Value, st *State, depth int, site ssa.Instruction) ([]Outcome, bool) {
	if strings.HasPrefix(name, rtPkg) {
		return e.rtCall(name[len(rtPkg):], args, st, depth, site), true
	}
	if fn.Pkg != nil && strings.HasPrefix(fn.Pkg.Pkg.Path(), "github.com/vektah/") {
		return nil, false
	}
	if fn.Pkg != nil && strings.HasPrefix(fn.Pkg.Pkg.Path(), "verifh") {
		return nil, false
	}
	if strings.HasPrefix(name, "reflect.") || strings.HasPrefix(name, "(reflect.") || strings.HasPrefix(name, "(*reflect.") {
		if outs, ok := e.reflectCall(fn, name, args, st, depth, site); ok {
			return outs, true
		}
	}
	switch name {
	case "fmt.Sprintf":
		f, ok := cstr(args[0])
		if !ok {
			e.unsupported("Sprintf with symbolic format")
		}
		return e.sprintf(st, depth, site, f, sliceVals(st, args[1].(SliceV)), func(st *State, s *Str) Value { return s }), true
	case "fmt.Errorf":
		f, ok := cstr(args[0])
		if !ok {
			e.unsupported("Errorf with symbolic format")
		}
		return e.sprintf(st, depth, site, f, sliceVals(st, args[1].(SliceV)), func(st *State, s *Str) Value { return e.errorsNew(st, site, s) }), true
	case "fmt.Sprint":
		vals := sliceVals(st, args[0].(SliceV))
		f := strings.Repeat("%v", len(vals))
		return e.sprintf(st, depth, site, f, vals, func(st *State, s *Str) Value { return s }), true
	case "fmt.Fprintf":
		f, ok := cstr(args[1])
		if !ok {
			e.unsupported("Fprintf with symbolic format")
		}
		w := args[0]
		return e.sprintf(st, depth, site, f, sliceVals(st, args[2].(SliceV)), func(st *State, s *Str) Value {
			return e.writeTo(st, depth, site, w, s)
		}), true
	case "fmt.Println", "fmt.Printf", "fmt.Print":
		return one(st, TupleV{i64(0), IfaceV{}}), true
	case "unicode/utf8.DecodeRuneInString":
		s := args[0].(*Str)
		if s.isC {
			r, n := utf8.DecodeRuneInString(s.c)
			return one(st, TupleV{BVs(int64(r), 32), i64(n)}), true
		}
		r, n := symDecodeRune(s, i64(0))
		return one(st, TupleV{r, n}), true
	case "unicode/utf8.RuneCountInString":
		if s, ok := cstr(args[0]); ok {
			return one(st, i64(utf8.RuneCountInString(s))), true
		}
		return nil, false
	case "unicode/utf8.ValidString":
		if s, ok := cstr(args[0]); ok {
			return one(st, Bool(utf8.ValidString(s))), true
		}
		if s, ok := args[0].(*Str); ok && s.sel == nil {
			return one(st, strValidUTF8(s)), true
		}
		return nil, false
	case "strings.Repeat":
		s, ok1 := cstr(args[0])
		n, ok2 := cint(args[1])
		if ok1 && ok2 && n >= 0 {
			return one(st, strConst(strings.Repeat(s, int(n)))), true
		}
		if ok2 && n >= 0 {
			r := emptyStr
			for i := int64(0); i < n; i++ {
				r = strConcat(r, args[0].(*Str))
			}
			return one(st, r), true
		}
		e.unsupported("strings.Repeat with symbolic count")
	case "strings.HasPrefix", "strings.HasSuffix", "strings.Contains", "strings.EqualFold":
		a, ok1 := cstr(args[0])
		b, ok2 := cstr(args[1])
		if ok1 && ok2 {
			var r bool
			switch name {
			case "strings.HasPrefix":
				r = strings.HasPrefix(a, b)
			case "strings.HasSuffix":
				r = strings.HasSuffix(a, b)
			case "strings.Contains":
				r = strings.Contains(a, b)
			case "strings.EqualFold":
				r = strings.EqualFold(a, b)
			}
			return one(st, Bool(r)), true
		}
		if name == "strings.HasPrefix" && ok2 {
			s := args[0].(*Str)
			r := Ule(i64(len(b)), s.Len())
			for i := 0; i < len(b); i++ {
				r = And(r, Eq(s.At(i), BV(uint64(b[i]), 8)))
			}
			return one(st, r), true
		}
		if sa, ok := args[0].(*Str); ok && sa.sel != nil && ok2 {
			return one(st, e.liftChoice(sa, func(o string) Value {
				switch name {
				case "strings.HasPrefix":
					return Bool(strings.HasPrefix(o, b))
				case "strings.HasSuffix":
					return Bool(strings.HasSuffix(o, b))
				case "strings.Contains":
					return Bool(strings.Contains(o, b))
				}
				return Bool(strings.EqualFold(o, b))
			})), true
		}
		if name == "strings.Contains" && ok2 {
			if s, ok := args[0].(*Str); ok && s.sel == nil {
				return one(st, strContainsConst(s, b)), true
			}
		}
		if sb, ok := args[1].(*Str); ok && sb.sel != nil && ok1 && name == "strings.EqualFold" {
			return one(st, e.liftChoice(sb, func(o string) Value { return Bool(strings.EqualFold(a, o)) })), true
		}
		e.unsupported("%s on symbolic strings", name)
	case "strings.TrimSpace", "strings.ToLower", "strings.ToUpper", "strings.Title":
		if s, ok := cstr(args[0]); ok {
			switch name {
			case "strings.TrimSpace":
				return one(st, strConst(strings.TrimSpace(s))), true
			case "strings.ToLower":
				return one(st, strConst(strings.ToLower(s))), true
			case "strings.ToUpper":
				return one(st, strConst(strings.ToUpper(s))), true
			}
		}
		if sa, ok := args[0].(*Str); ok && sa.sel != nil {
			return one(st, e.liftChoice(sa, func(o string) Value {
				switch name {
				case "strings.TrimSpace":
					return strConst(strings.TrimSpace(o))
				case "strings.ToLower":
					return strConst(strings.ToLower(o))
				}
				return strConst(strings.ToUpper(o))
			})), true
		}
		if sa, ok := args[0].(*Str); ok && name == "strings.TrimSpace" && !sa.isC && sa.n.op == OpConst {
			// concrete length, symbolic bytes: ASCII only (a byte >= 0x80 that is feasible is refused,
			// U+0085 / U+00A0 and friends are white space to Go); if neither end can be white space the
			// string is returned as it is, otherwise the trimmed view has symbolic bounds
			k := int(sa.n.val)
			isSp := func(b *Term) *Term {
				return Or(Eq(b, BV(' ', 8)), And(Ule(BV(9, 8), b), Ule(b, BV(13, 8))))
			}
			feasible := func(c *Term) bool {
				if c == FF {
					return false
				}
				ns := st.Fork()
				ns.Assume(c)
				return e.solver.Check(ns.pc) != ResUnsat
			}
			for i := 0; i < k; i++ {
				if feasible(Ule(BV(0x80, 8), sa.b[i])) {
					e.unsupported("strings.TrimSpace on a symbolic string that may hold non-ASCII bytes")
				}
			}
			if k == 0 || (!feasible(isSp(sa.b[0])) && !feasible(isSp(sa.b[k-1]))) {
				return one(st, sa), true
			}
			// lo = number of leading white-space bytes; hi = k - trailing ones (lo when all are)
			lo := BV(uint64(k), 64)
			for i := k - 1; i >= 0; i-- {
				lo = Ite(isSp(sa.b[i]), lo, BV(uint64(i), 64))
			}
			hi := BV(0, 64)
			for i := 0; i < k; i++ {
				hi = Ite(isSp(sa.b[i]), hi, BV(uint64(i+1), 64))
			}
			hi = Ite(Ult(hi, lo), lo, hi)
			return one(st, sa.Slice(lo, hi)), true
		}
		e.unsupported("%s on symbolic string", name)
	case "strings.TrimPrefix", "strings.TrimSuffix":
		a, ok1 := cstr(args[0])
		b, ok2 := cstr(args[1])
		if ok1 && ok2 {
			if name == "strings.TrimPrefix" {
				return one(st, strConst(strings.TrimPrefix(a, b))), true
			}
			return one(st, strConst(strings.TrimSuffix(a, b))), true
		}
		if sa, ok := args[0].(*Str); ok && sa.sel != nil && ok2 {
			return one(st, e.liftChoice(sa, func(o string) Value {
				if name == "strings.TrimPrefix" {
					return strConst(strings.TrimPrefix(o, b))
				}
				return strConst(strings.TrimSuffix(o, b))
			})), true
		}
		if sa, ok := args[0].(*Str); ok && ok2 && !sa.isC && sa.n.op == OpConst {
			// concrete length, symbolic bytes, constant affix
			k, m := int(sa.n.val), len(b)
			if k < m {
				return one(st, sa), true
			}
			match := TT
			for i := 0; i < m; i++ {
				at := i
				if name == "strings.TrimSuffix" {
					at = k - m + i
				}
				match = And(match, Eq(sa.b[at], BV(uint64(b[i]), 8)))
			}
			if name == "strings.TrimPrefix" {
				return one(st, sa.Slice(Ite(match, BV(uint64(m), 64), BV(0, 64)), BV(uint64(k), 64))), true
			}
			return one(st, sa.Slice(BV(0, 64), Ite(match, BV(uint64(k-m), 64), BV(uint64(k), 64)))), true
		}
		e.unsupported("%s on symbolic string", name)
	case "strings.ReplaceAll":
		a, ok1 := cstr(args[0])
		b, ok2 := cstr(args[1])
		c, ok3 := cstr(args[2])
		if ok1 && ok2 && ok3 {
			return one(st, strConst(strings.ReplaceAll(a, b, c))), true
		}
		return nil, false
	case "strings.Compare":
		a, b := args[0].(*Str), args[1].(*Str)
		return one(st, Ite(strLess(a, b), BVs(-1, 64), Ite(strEq(a, b), i64(0), i64(1)))), true
	case "strings.Index", "strings.LastIndex", "strings.Count":
		a, ok1 := cstr(args[0])
		b, ok2 := cstr(args[1])
		if ok1 && ok2 {
			switch name {
			case "strings.Index":
				return one(st, i64(strings.Index(a, b))), true
			case "strings.LastIndex":
				return one(st, i64(strings.LastIndex(a, b))), true
			}
			return one(st, i64(strings.Count(a, b))), true
		}
		return nil, false
	case "strings.IndexByte":
		a, ok1 := cstr(args[0])
		b, ok2 := cint(args[1])
		if ok1 && ok2 {
			return one(st, i64(strings.IndexByte(a, byte(b)))), true
		}
		return nil, false
	case "strings.IndexAny", "strings.ContainsAny":
		// constant ASCII character set (Go then works byte by byte): first index of a byte of s in the set
		chars, okc := cstr(args[1])
		sa, oks := args[0].(*Str)
		if !okc || !oks {
			return nil, false
		}
		for i := 0; i < len(chars); i++ {
			if chars[i] >= 0x80 {
				return nil, false
			}
		}
		if a, ok := cstr(args[0]); ok {
			if name == "strings.ContainsAny" {
				return one(st, Bool(strings.ContainsAny(a, chars))), true
			}
			return one(st, i64(strings.IndexAny(a, chars))), true
		}
		n := sa.Len()
		idx := BVs(-1, 64)
		for i := sa.Max() - 1; i >= 0; i-- {
			in := FF
			for j := 0; j < len(chars); j++ {
				in = Or(in, Eq(sa.At(i), BV(uint64(chars[j]), 8)))
			}
			idx = Ite(And(Ult(i64(i), n), in), i64(i), idx)
		}
		if name == "strings.ContainsAny" {
			return one(st, Not(Eq(idx, BVs(-1, 64)))), true
		}
		return one(st, idx), true
	case "strings.Join":
		sv := args[0].(SliceV)
		sep := args[1].(*Str)
		r := emptyStr
		for i, v := range sliceVals(st, sv) {
			if i > 0 {
				r = strConcat(r, sep)
			}
			r = strConcat(r, v.(*Str))
		}
		return one(st, r), true
	case "strings.Split":
		s, ok1 := cstr(args[0])
		sep, ok2 := cstr(args[1])
		if ok1 && ok2 {
			parts := strings.Split(s, sep)
			vals := make([]Value, len(parts))
			for i, p := range parts {
				vals[i] = strConst(p)
			}
			return one(st, e.newSlice(st, site, 2, vals, types.Typ[types.String])), true
		}
		if ok2 && len(sep) == 1 {
			return e.symSplit(st, site, args[0].(*Str), sep[0]), true
		}
		e.unsupported("strings.Split with symbolic separator")
	case "strings.Fields":
		if s, ok := cstr(args[0]); ok {
			parts := strings.Fields(s)
			vals := make([]Value, len(parts))
			for i, p := range parts {
				vals[i] = strConst(p)
			}
			return one(st, e.newSlice(st, site, 2, vals, types.Typ[types.String])), true
		}
		return nil, false
	case "(*strings.Builder).WriteString", "(*bytes.Buffer).WriteString":
		e.bufAppend(st, args[0].(Ptr), args[1].(*Str))
		return one(st, TupleV{args[1].(*Str).Len(), IfaceV{}}), true
	case "(*strings.Builder).WriteByte", "(*bytes.Buffer).WriteByte":
		e.bufAppend(st, args[0].(Ptr), strFromBytes(i64(1), []*Term{args[1].(*Term)}))
		return one(st, IfaceV{}), true
	case "(*strings.Builder).WriteRune", "(*bytes.Buffer).WriteRune":
		rs := e.runeToString(args[1].(*Term))
		e.bufAppend(st, args[0].(Ptr), rs)
		return one(st, TupleV{rs.Len(), IfaceV{}}), true
	case "(*strings.Builder).Write", "(*bytes.Buffer).Write":
		sv := args[1].(SliceV)
		bs := make([]*Term, sv.ln)
		for i, v := range sliceVals(st, sv) {
			bs[i] = v.(*Term)
		}
		e.bufAppend(st, args[0].(Ptr), strFromBytes(i64(len(bs)), bs))
		return one(st, TupleV{i64(len(bs)), IfaceV{}}), true
	case "(*strings.Builder).String", "(*bytes.Buffer).String":
		p := args[0].(Ptr)
		if p.obj == 0 {
			return one(st, strConst("<nil>")), true
		}
		return one(st, e.bufGet(st, p)), true
	case "(*strings.Builder).Len", "(*bytes.Buffer).Len":
		return one(st, e.bufGet(st, args[0].(Ptr)).Len()), true
	case "(*strings.Builder).Reset", "(*bytes.Buffer).Reset":
		e.bufSet(st, args[0].(Ptr), emptyStr)
		return one(st, nil), true
	case "(*strings.Builder).Grow", "(*bytes.Buffer).Grow":
		return one(st, nil), true
	case "bytes.NewBufferString":
		t := fn.Signature.Results().At(0).Type().(*types.Pointer).Elem()
		o := st.alloc(site, 3, []Value{zero(t)}, t)
		p := Ptr{obj: o.id, path: []int{0}}
		e.bufSet(st, p, args[0].(*Str))
		return one(st, p), true
	case "strconv.Itoa":
		t := args[0].(*Term)
		return one(st, e.fmtInt(t, true)), true
	case "strconv.Quote":
		if e.realQuote {
			if s := args[0].(*Str); !s.isC && s.sel == nil {
				return nil, false
			}
		}
		return one(st, e.quote(args[0].(*Str))), true
	case "strconv.ParseInt", "strconv.ParseUint", "strconv.ParseFloat", "strconv.ParseBool", "strconv.Atoi", "strconv.Unquote":
		if out, ok := e.strconvParse(fn, name, args, st, site); ok {
			return out, true
		}
		return nil, false
	case "strconv.FormatInt":
		if v, ok := cint(args[0]); ok {
			if b, ok := cint(args[1]); ok {
				return one(st, strConst(strconv.FormatInt(v, int(b)))), true
			}
		}
		return nil, false
	case "sort.Strings":
		return e.sortStrings(st, args[0].(SliceV)), true
	case "sort.Slice", "sort.SliceStable":
		return e.sortSlice(st, depth, site, args[0], args[1], name == "sort.SliceStable"), true
	case "reflect.DeepEqual":
		return one(st, e.deepEqual(st, args[0], args[1], 0)), true
	case "math.Max", "math.Min":
		a, b := float64(args[0].(FloatV)), float64(args[1].(FloatV))
		if name == "math.Max" {
			return one(st, FloatV(math.Max(a, b))), true
		}
		return one(st, FloatV(math.Min(a, b))), true
	case "math.Floor":
		return one(st, FloatV(math.Floor(float64(args[0].(FloatV))))), true
	case "math.Abs":
		return one(st, FloatV(math.Abs(float64(args[0].(FloatV))))), true
	case "math.IsNaN":
		return one(st, Bool(math.IsNaN(float64(args[0].(FloatV))))), true
	case "math.IsInf":
		if s, ok := cint(args[1]); ok {
			return one(st, Bool(math.IsInf(float64(args[0].(FloatV)), int(s)))), true
		}
	case "unicode.IsLetter", "unicode.IsDigit", "unicode.IsSpace", "unicode.IsUpper", "unicode.IsLower", "unicode.IsPrint", "strconv.IsPrint":
		if r, ok := cint(args[0]); ok {
			var b bool
			switch name {
			case "unicode.IsLetter":
				b = unicode.IsLetter(rune(r))
			case "unicode.IsDigit":
				b = unicode.IsDigit(rune(r))
			case "unicode.IsSpace":
				b = unicode.IsSpace(rune(r))
			case "unicode.IsUpper":
				b = unicode.IsUpper(rune(r))
			case "unicode.IsLower":
				b = unicode.IsLower(rune(r))
			case "unicode.IsPrint":
				b = unicode.IsPrint(rune(r))
			case "strconv.IsPrint":
				b = strconv.IsPrint(rune(r))
			}
			return one(st, Bool(b)), true
		}
		if name == "strconv.IsPrint" || name == "unicode.IsPrint" {
			return one(st, isPrintTerm(args[0].(*Term), name == "unicode.IsPrint")), true
		}
		e.unsupported("%s on symbolic rune", name)
	case "unicode.ToLower", "unicode.ToUpper":
		if r, ok := cint(args[0]); ok {
			if name == "unicode.ToLower" {
				return one(st, BVs(int64(unicode.ToLower(rune(r))), 32)), true
			}
			return one(st, BVs(int64(unicode.ToUpper(rune(r))), 32)), true
		}
		e.unsupported("%s on symbolic rune", name)
	case "errors.Is":
		// walk the Unwrap chain
		cur := args[0]
		target := args[1]
		for i := 0; i < 20; i++ {
			ci, ok := cur.(IfaceV)
			if !ok || ci.t == nil {
				return one(st, FF), true
			}
			if eq := e.valEq(cur, target); eq == TT {
				return one(st, TT), true
			} else if eq != FF {
				e.unsupported("errors.Is with symbolic comparison")
			}
			ms := e.prog.MethodSets.MethodSet(ci.t)
			var unwrap *ssa.Function
			for j := 0; j < ms.Len(); j++ {
				if ms.At(j).Obj().Name() == "Unwrap" {
					unwrap = e.prog.MethodValue(ms.At(j))
				}
			}
			if unwrap == nil {
				return one(st, FF), true
			}
			outs := e.callFunction(unwrap, []Value{ci.v}, nil, st, depth+1, site)
			if len(outs) != 1 || outs[0].pan != nil {
				e.unsupported("errors.Is: Unwrap has %d outcomes", len(outs))
			}
			st = outs[0].st
			cur = outs[0].ret
		}
		e.unsupported("errors.Is: chain too long")
	case "errors.As":
		e.unsupported("%s", name)
	}
	switch name {
	case "(encoding/json.Number).String", "(encoding/json.Number).Int64", "(encoding/json.Number).Float64":
		return nil, false // three one-line conversions through strconv: executed from source
	}
	if fn.Pkg != nil {
		switch fn.Pkg.Pkg.Path() {
		case "reflect", "encoding/json", "os", "sync", "runtime", "syscall", "unsafe", "internal/bytealg", "sync/atomic", "internal/reflectlite", "io", "time":
			e.unsupported("call into package %s: %s", fn.Pkg.Pkg.Path(), name)
		}
	}
	return nil, false
}

func (e *Engine) liftChoice(s *Str, f func(o string) Value) Value {
	var acc Value
	for k := len(s.opts) - 1; k >= 0; k-- {
		v := f(s.opts[k])
		if acc == nil {
			acc = v
			continue
		}
		m, ok := mergeVal(Eq(s.sel, BV(uint64(k), s.sel.w)), v, acc)
		if !ok {
			e.unsupported("liftChoice: unmergeable results")
		}
		acc = m
	}
	return acc
}

func (e *Engine) boundIntrinsic(fv *FuncV, args []Value, st *State, depth int, site ssa.Instruction) []Outcome {
	e.unsupported("bound intrinsic %s", fv.intr)
	return nil
}

// ---------- buffers ----------

func bufFieldIndex(t types.Type) int {
	// strings.Builder{addr, buf}; bytes.Buffer{buf, off, lastRead}
	if named, ok := t.(*types.Named); ok && named.Obj().Name() == "Builder" {
		return 1
	}
	return 0
}

func (e *Engine) bufPath(st *State, p Ptr) Ptr {
	if p.obj == 0 {
		panic(unsupported{"nil buffer"})
	}
	v := e.load(st, p).(*StructV)
	idx := 0
	if len(v.f) == 2 {
		idx = 1
	}
	return Ptr{obj: p.obj, path: append(append([]int(nil), p.path...), idx)}
}

func (e *Engine) bufGet(st *State, p Ptr) *Str {
	v := e.load(st, e.bufPath(st, p))
	if s, ok := v.(*Str); ok {
		return s
	}
	return emptyStr
}

func (e *Engine) bufSet(st *State, p Ptr, s *Str) { e.store(st, e.bufPath(st, p), s) }

func (e *Engine) bufAppend(st *State, p Ptr, s *Str) {
	e.bufSet(st, p, strConcat(e.bufGet(st, p), s))
}

// writeTo implements io.Writer.Write(p) for the writers we know.
func (e *Engine) writeTo(st *State, depth int, site ssa.Instruction, w Value, s *Str) Value {
	iv, ok := w.(IfaceV)
	if !ok || iv.t == nil {
		e.unsupported("Fprintf to %T", w)
	}
	ts := iv.t.String()
	if ts == "*strings.Builder" || ts == "*bytes.Buffer" {
		e.bufAppend(st, iv.v.(Ptr), s)
		return TupleV{s.Len(), IfaceV{}}
	}
	// generic writer: call Write([]byte(s)) through the interpreter (concrete length only)
	n := s.Len()
	if n.op != OpConst {
		e.unsupported("Fprintf of symbolic-length text to %s", ts)
	}
	sl := e.newSlice(st, site, 5, termsToVals(s.bytesSlice()[:n.val]), types.Typ[types.Uint8])
	ms := e.prog.MethodSets.MethodSet(iv.t)
	var m *ssa.Function
	for i := 0; i < ms.Len(); i++ {
		if ms.At(i).Obj().Name() == "Write" {
			m = e.prog.MethodValue(ms.At(i))
		}
	}
	if m == nil {
		e.unsupported("writer %s has no Write", ts)
	}
	outs := e.callFunction(m, []Value{iv.v, sl}, nil, st, depth+1, site)
	if len(outs) != 1 || outs[0].pan != nil {
		e.unsupported("Write produced %d outcomes", len(outs))
	}
	return outs[0].ret
}

// ---------- fmt ----------

func (e *Engine) fmtInt(t *Term, signed bool) *Str {
	f := func(c *Term) string {
		if signed {
			return strconv.FormatInt(c.SVal(), 10)
		}
		return strconv.FormatUint(c.val, 10)
	}
	if t.op == OpConst {
		return strConst(f(t))
	}
	if t.leaves > 0 && t.leaves <= 64 {
		var rec func(x *Term) *Str
		rec = func(x *Term) *Str {
			if x.op == OpConst {
				return strConst(f(x))
			}
			return strIte(x.a[0], rec(x.a[1]), rec(x.a[2]))
		}
		return rec(t)
	}
	return e.opaqueStr(fmt.Sprintf("itoa.%d", t.id), 1, 20)
}

var opaqueCache = map[string]*Str{}

func (e *Engine) opaqueStr(key string, minLen, maxLen int) *Str {
	if s, ok := opaqueCache[key]; ok {
		return s
	}
	n := NewVarRange("opq."+key+".len", 64, uint64(minLen), uint64(maxLen))
	b := make([]*Term, maxLen)
	for i := range b {
		b[i] = NewVar(fmt.Sprintf("opq.%s[%d]", key, i), 8)
	}
	s := &Str{n: n, b: b}
	opaqueCache[key] = s
	return s
}

func strKey(s *Str) string {
	if s.isC {
		return "c:" + s.c
	}
	var sb strings.Builder
	fmt.Fprintf(&sb, "s:%d", s.n.id)
	for _, b := range s.b {
		fmt.Fprintf(&sb, ",%d", b.id)
	}
	return sb.String()
}

func (e *Engine) quote(s *Str) *Str {
	if s.isC {
		return strConst(strconv.Quote(s.c))
	}
	if s.sel != nil {
		return e.liftChoice(s, func(o string) Value { return strConst(strconv.Quote(o)) }).(*Str)
	}
	mid := e.opaqueStr("quote."+strKey(s), 0, 4*s.Max()+2)
	return strConcat(strConcat(strConst(`"`), mid), strConst(`"`))
}

// sprintf formats; finish converts the resulting string into the call's result.
func (e *Engine) sprintf(st *State, depth int, site ssa.Instruction, format string, args []Value, finish func(*State, *Str) Value) []Outcome {
	res := emptyStr
	ai := 0
	lit := strings.Builder{}
	flush := func() {
		if lit.Len() > 0 {
			res = strConcat(res, strConst(lit.String()))
			lit.Reset()
		}
	}
	for i := 0; i < len(format); i++ {
		c := format[i]
		if c != '%' {
			lit.WriteByte(c)
			continue
		}
		j := i + 1
		for j < len(format) && strings.IndexByte("+-# 0123456789.", format[j]) >= 0 {
			j++
		}
		if j >= len(format) {
			lit.WriteString(format[i:])
			break
		}
		verb := format[j]
		spec := format[i : j+1]
		i = j
		if verb == '%' {
			lit.WriteByte('%')
			continue
		}
		if ai >= len(args) {
			lit.WriteString("%!" + string(verb) + "(MISSING)")
			continue
		}
		a := args[ai]
		ai++
		flush()
		var piece *Str
		piece, st = e.fmtArg(st, depth, site, spec, verb, a)
		res = strConcat(res, piece)
	}
	flush()
	if ai < len(args) {
		res = strConcat(res, strConst("%!(EXTRA ...)"))
	}
	return one(st, finish(st, res))
}

func (e *Engine) fmtArg(st *State, depth int, site ssa.Instruction, spec string, verb byte, a Value) (*Str, *State) {
	iv, ok := a.(IfaceV)
	if !ok {
		e.unsupported("fmt argument %T", a)
	}
	if iv.t == nil {
		if verb == 'T' {
			return strConst("<nil>"), st
		}
		return strConst("%!" + string(verb) + "(<nil>)"), st
	}
	if verb == 'T' {
		return strConst(types.TypeString(iv.t, func(p *types.Package) string { return p.Name() })), st
	}
	// error / Stringer
	if verb == 's' || verb == 'v' || verb == 'q' {
		for _, mname := range []string{"Error", "String"} {
			ms := e.prog.MethodSets.MethodSet(iv.t)
			for i := 0; i < ms.Len(); i++ {
				sel := ms.At(i)
				sig := sel.Type().(*types.Signature)
				if sel.Obj().Name() == mname && sig.Params().Len() == 0 && sig.Results().Len() == 1 && isString(sig.Results().At(0).Type()) {
					if p, isP := iv.v.(Ptr); isP && p.obj == 0 {
						return strConst("<nil>"), st
					}
					m := e.prog.MethodValue(sel)
					outs := e.callFunction(m, []Value{iv.v}, nil, st, depth+1, site)
					if len(outs) != 1 || outs[0].pan != nil {
						e.unsupported("fmt: %s method of %s has %d outcomes", mname, iv.t, len(outs))
					}
					s := outs[0].ret.(*Str)
					if verb == 'q' {
						s = e.quote(s)
					}
					return s, outs[0].st
				}
			}
		}
	}
	switch v := iv.v.(type) {
	case *Str:
		switch verb {
		case 's', 'v':
			return v, st
		case 'q':
			return e.quote(v), st
		}
	case *Term:
		if v.w == 0 {
			if v.op == OpConst {
				return strConst(fmt.Sprintf(spec, v == TT)), st
			}
			return strIte(v, strConst("true"), strConst("false")), st
		}
		_, signed, _ := intWidth(iv.t)
		if v.op == OpConst {
			if signed {
				return strConst(fmt.Sprintf(spec, v.SVal())), st
			}
			return strConst(fmt.Sprintf(spec, v.val)), st
		}
		if verb == 'd' || verb == 'v' {
			if spec == "%d" || spec == "%v" {
				return e.fmtInt(v, signed), st
			}
			if v.leaves > 0 && v.leaves <= 64 {
				var rec func(x *Term) *Str
				rec = func(x *Term) *Str {
					if x.op == OpConst {
						if signed {
							return strConst(fmt.Sprintf(spec, x.SVal()))
						}
						return strConst(fmt.Sprintf(spec, x.val))
					}
					return strIte(x.a[0], rec(x.a[1]), rec(x.a[2]))
				}
				return rec(v), st
			}
			return e.opaqueStr(fmt.Sprintf("fmt%s.%d", spec, v.id), 1, 20), st
		}
		if verb == 'x' || verb == 'X' {
			// %x / %0Nx of a symbolic integer (non-negative values only are modelled exactly;
			// a negative value is a separate branch with an opaque text)
			minW, ok := hexSpecWidth(spec)
			if ok {
				h := fmtHex(v, minW, verb == 'X')
				if signed {
					neg := Slt(v, BV(0, v.w))
					if neg != FF {
						h = strIte(neg, e.opaqueStr(fmt.Sprintf("fmtneg%s.%d", spec, v.id), 2, 20), h)
					}
				}
				return h, st
			}
		}
	case FloatV:
		return strConst(fmt.Sprintf(spec, float64(v))), st
	case Ptr:
		if verb == 'v' || verb == 's' {
			return strConst("<ptr>"), st
		}
	}
	e.unsupported("fmt verb %s on %s", spec, iv.t)
	return nil, st
}

// ---------- strings.Split on a symbolic string (single-byte separator) ----------

func (e *Engine) symSplit(st *State, site ssa.Instruction, s *Str, sep byte) []Outcome {
	// fork on the length and on which positions hold the separator
	type cfg struct {
		st    *State
		parts []*Str
		start int
	}
	var outs []Outcome
	maxN := s.Max()
	for n := 0; n <= maxN; n++ {
		lenCond := Eq(s.Len(), i64(n))
		if lenCond == FF {
			continue
		}
		base := st.Fork()
		base.Assume(lenCond)
		if e.solver.Check(base.pc) == ResUnsat {
			continue
		}
		cur := []cfg{{st: base}}
		for i := 0; i < n; i++ {
			var nxt []cfg
			isSep := Eq(s.At(i), BV(uint64(sep), 8))
			for _, c := range cur {
				for k, cond := range []*Term{isSep, Not(isSep)} {
					if cond == FF {
						continue
					}
					ns := c.st
					if cond != TT {
						ns = c.st.Fork()
						ns.Assume(cond)
						if e.solver.Check(ns.pc) == ResUnsat {
							continue
						}
					}
					nc := cfg{st: ns, parts: c.parts, start: c.start}
					if k == 0 {
						nc.parts = append(append([]*Str(nil), c.parts...), s.Slice(i64(c.start), i64(i)))
						nc.start = i + 1
					}
					nxt = append(nxt, nc)
				}
			}
			cur = nxt
		}
		for _, c := range cur {
			parts := append(append([]*Str(nil), c.parts...), s.Slice(i64(c.start), i64(n)))
			vals := make([]Value, len(parts))
			for i, p := range parts {
				vals[i] = p
			}
			outs = append(outs, Outcome{st: c.st, ret: e.newSlice(c.st, site, 2, vals, types.Typ[types.String])})
		}
	}
	return outs
}

// ---------- strconv parsing ----------

func (e *Engine) strconvParse(fn *ssa.Function, name string, args []Value, st *State, site ssa.Instruction) ([]Outcome, bool) {
	s, ok := cstr(args[0])
	if !ok {
		if sa, isS := args[0].(*Str); isS && sa.sel != nil {
			// fork over the options
			var outs []Outcome
			for k, o := range sa.opts {
				c := Eq(sa.sel, BV(uint64(k), sa.sel.w))
				ns := st.Fork()
				ns.Assume(c)
				if e.solver.Check(ns.pc) == ResUnsat {
					continue
				}
				na := append([]Value{strConst(o)}, args[1:]...)
				r, _ := e.strconvParse(fn, name, na, ns, site)
				outs = append(outs, r...)
			}
			return outs, true
		}
		if sa, isS := args[0].(*Str); isS && (name == "strconv.ParseInt" || name == "strconv.ParseUint") {
			return e.symParseInt(name, sa, args, st, site)
		}
		return nil, false
	}
	mkErr := func(err error) Value {
		if err == nil {
			return IfaceV{}
		}
		// *strconv.NumError
		pkg := e.prog.ImportedPackage("strconv")
		t := pkg.Type("NumError").Type()
		ne := err.(*strconv.NumError)
		var inner Value = IfaceV{}
		if ne.Err == strconv.ErrRange {
			inner = e.load(st, Ptr{obj: e.globalObj(pkg.Var("ErrRange")), path: []int{0}})
		} else if ne.Err == strconv.ErrSyntax {
			inner = e.load(st, Ptr{obj: e.globalObj(pkg.Var("ErrSyntax")), path: []int{0}})
		}
		o := st.alloc(site, 8, []Value{&StructV{[]Value{strConst(ne.Func), strConst(ne.Num), inner}}}, t)
		return IfaceV{types.NewPointer(t), Ptr{obj: o.id, path: []int{0}}}
	}
	switch name {
	case "strconv.ParseInt":
		b, ok1 := cint(args[1])
		bits, ok2 := cint(args[2])
		if !ok1 || !ok2 {
			return nil, false
		}
		v, err := strconv.ParseInt(s, int(b), int(bits))
		return one(st, TupleV{BVs(v, 64), mkErr(err)}), true
	case "strconv.ParseUint":
		b, ok1 := cint(args[1])
		bits, ok2 := cint(args[2])
		if !ok1 || !ok2 {
			return nil, false
		}
		v, err := strconv.ParseUint(s, int(b), int(bits))
		return one(st, TupleV{BV(v, 64), mkErr(err)}), true
	case "strconv.Atoi":
		v, err := strconv.Atoi(s)
		return one(st, TupleV{i64(v), mkErr(err)}), true
	case "strconv.ParseFloat":
		bits, ok := cint(args[1])
		if !ok {
			return nil, false
		}
		v, err := strconv.ParseFloat(s, int(bits))
		return one(st, TupleV{FloatV(v), mkErr(err)}), true
	case "strconv.ParseBool":
		v, err := strconv.ParseBool(s)
		return one(st, TupleV{Bool(v), mkErr(err)}), true
	case "strconv.Unquote":
		v, err := strconv.Unquote(s)
		var ev Value = IfaceV{}
		if err != nil {
			pkg := e.prog.ImportedPackage("strconv")
			ev = e.load(st, Ptr{obj: e.globalObj(pkg.Var("ErrSyntax")), path: []int{0}})
		}
		return one(st, TupleV{strConst(v), ev}), true
	}
	return nil, false
}

// ---------- sorting ----------

func (e *Engine) sortStrings(st *State, sv SliceV) []Outcome {
	if sv.ln <= 1 {
		return one(st, nil)
	}
	o := st.wobj(sv.obj)
	els := make([]*Str, sv.ln)
	allC := true
	for i := range els {
		els[i] = o.cells[sv.off+i].(*Str)
		if !els[i].isC {
			allC = false
		}
	}
	if allC {
		ss := make([]string, len(els))
		for i, s := range els {
			ss[i] = s.c
		}
		sort.Strings(ss)
		for i, s := range ss {
			o.cells[sv.off+i] = strConst(s)
		}
		return one(st, nil)
	}
	// symbolic: sorting network by compare-exchange (result is the ascending permutation)
	for i := 0; i < len(els); i++ {
		for j := 0; j < len(els)-1-i; j++ {
			sw := strLess(els[j+1], els[j])
			a, b := els[j], els[j+1]
			els[j], els[j+1] = strIte(sw, b, a), strIte(sw, a, b)
		}
	}
	for i, s := range els {
		o.cells[sv.off+i] = s
	}
	return one(st, nil)
}

func (e *Engine) sortSlice(st *State, depth int, site ssa.Instruction, x, less Value, stable bool) []Outcome {
	sv := x.(IfaceV).v.(SliceV)
	n := sv.ln
	lessFn := less.(*FuncV)
	// insertion sort driven by the caller's less; forks when less is symbolic.
	// This yields a stable order, which is one of the orders sort.Slice may produce.
	if !stable && n > 12 {
		e.unsupported("sort.Slice over %d elements (pdqsort path not modelled)", n)
	}
	type cfg struct{ st *State }
	states := []*State{st}
	for i := 1; i < n; i++ {
		for j := i; j > 0; j-- {
			var next []*State
			anySwap := false
			for _, s := range states {
				outs := e.callFunction(lessFn.fn, []Value{i64(j), i64(j - 1)}, lessFn.env, s, depth+1, site)
				for _, o := range outs {
					if o.pan != nil {
						e.unsupported("panic inside sort less function")
					}
					c := o.ret.(*Term)
					doSwap := func(s2 *State) {
						ob := s2.wobj(sv.obj)
						ob.cells[sv.off+j], ob.cells[sv.off+j-1] = ob.cells[sv.off+j-1], ob.cells[sv.off+j]
					}
					switch c {
					case TT:
						doSwap(o.st)
						anySwap = true
						next = append(next, o.st)
					case FF:
						next = append(next, o.st)
					default:
						for k, cond := range []*Term{c, Not(c)} {
							ns := o.st.Fork()
							ns.Assume(cond)
							if e.solver.Check(ns.pc) == ResUnsat {
								continue
							}
							if k == 0 {
								doSwap(ns)
								anySwap = true
							}
							next = append(next, ns)
						}
					}
				}
			}
			states = next
			if !anySwap && len(states) == 1 {
				break
			}
		}
	}
	var outs []Outcome
	for _, s := range states {
		outs = append(outs, Outcome{st: s})
	}
	return outs
}

// ---------- reflect.DeepEqual ----------

func (e *Engine) deepEqual(st *State, a, b Value, depth int) *Term {
	if depth > 50 {
		e.unsupported("DeepEqual recursion too deep")
	}
	switch x := a.(type) {
	case IfaceV:
		y, ok := b.(IfaceV)
		if !ok {
			return FF
		}
		if x.t == nil || y.t == nil {
			return Bool(x.t == nil && y.t == nil)
		}
		if !types.Identical(x.t, y.t) {
			return FF
		}
		return e.deepEqual(st, x.v, y.v, depth+1)
	case *Term:
		return Eq(x, b.(*Term))
	case *Str:
		return strEq(x, b.(*Str))
	case FloatV:
		return Bool(x == b.(FloatV))
	case Ptr:
		y := b.(Ptr)
		if x.obj == 0 || y.obj == 0 {
			return Bool(x.obj == 0 && y.obj == 0)
		}
		if x.obj == y.obj && pathEq(x.path, y.path) {
			return TT
		}
		return e.deepEqual(st, e.load(st, x), e.load(st, y), depth+1)
	case *StructV:
		y := b.(*StructV)
		r := TT
		for i := range x.f {
			r = And(r, e.deepEqual(st, x.f[i], y.f[i], depth+1))
			if r == FF {
				return FF
			}
		}
		return r
	case *ArrayV:
		y := b.(*ArrayV)
		r := TT
		for i := range x.e {
			r = And(r, e.deepEqual(st, x.e[i], y.e[i], depth+1))
		}
		return r
	case SliceV:
		y := b.(SliceV)
		if (x.obj == 0) != (y.obj == 0) || x.ln != y.ln {
			return FF
		}
		xs, ys := sliceVals(st, x), sliceVals(st, y)
		r := TT
		for i := range xs {
			r = And(r, e.deepEqual(st, xs[i], ys[i], depth+1))
			if r == FF {
				return FF
			}
		}
		return r
	case MapV:
		y := b.(MapV)
		if (x.obj == 0) != (y.obj == 0) {
			return FF
		}
		if x.obj == 0 {
			return TT
		}
		ox, oy := st.obj(x.obj), st.obj(y.obj)
		if len(ox.keys) != len(oy.keys) {
			return FF
		}
		r := TT
		for i, k := range ox.keys {
			found := false
			for j, k2 := range oy.keys {
				if sameVal(k, k2) {
					r = And(r, e.deepEqual(st, ox.cells[i], oy.cells[j], depth+1))
					found = true
				}
			}
			if !found {
				return FF
			}
		}
		return r
	case *FuncV:
		y := b.(*FuncV)
		return Bool(x == nil && y == nil)
	}
	e.unsupported("DeepEqual on %T", a)
	return nil
}

// ---------- builtins ----------

func (e *Engine) builtin(name string, args []Value, st *State, site ssa.Instruction, cc *ssa.CallCommon) []Outcome {
	switch name {
	case "len":
		switch x := args[0].(type) {
		case *Str:
			return one(st, x.Len())
		case SliceV:
			return one(st, i64(x.ln))
		case MapV:
			if x.obj == 0 {
				return one(st, i64(0))
			}
			return one(st, i64(len(st.obj(x.obj).keys)))
		case *ArrayV:
			return one(st, i64(len(x.e)))
		case Ptr:
			return one(st, i64(len(st.obj(x.obj).cells)))
		}
	case "cap":
		switch x := args[0].(type) {
		case SliceV:
			return one(st, i64(x.cp))
		}
	case "append":
		s := args[0].(SliceV)
		var add []Value
		switch t := args[1].(type) {
		case SliceV:
			add = sliceVals(st, t)
		case *Str:
			n := t.Len()
			if n.op != OpConst {
				e.unsupported("append([]byte, symbolic-length string...)")
			}
			add = termsToVals(t.bytesSlice()[:n.val])
		}
		if len(add) == 0 {
			return one(st, s)
		}
		add = append([]Value(nil), add...)
		if s.obj != 0 && s.ln+len(add) <= s.cp {
			o := st.wobj(s.obj)
			copy(o.cells[s.off+s.ln:], add)
			return one(st, SliceV{s.obj, s.off, s.ln + len(add), s.cp})
		}
		newLen := s.ln + len(add)
		newCap := s.cp * 2
		if s.cp >= 256 {
			newCap = s.cp + (s.cp+3*256)/4
		}
		if newCap < newLen {
			newCap = newLen
		}
		et := cc.Args[0].Type().Underlying().(*types.Slice).Elem()
		cells := make([]Value, newCap)
		copy(cells, sliceVals(st, s))
		copy(cells[s.ln:], add)
		z := zero(et)
		for i := newLen; i < newCap; i++ {
			cells[i] = z
		}
		o := st.alloc(site, 9, cells, et)
		return one(st, SliceV{o.id, 0, newLen, newCap})
	case "copy":
		d := args[0].(SliceV)
		var src []Value
		switch t := args[1].(type) {
		case SliceV:
			src = append([]Value(nil), sliceVals(st, t)...)
		case *Str:
			n := t.Len()
			if n.op != OpConst {
				e.unsupported("copy from symbolic-length string")
			}
			src = termsToVals(t.bytesSlice()[:n.val])
		}
		n := len(src)
		if d.ln < n {
			n = d.ln
		}
		if n > 0 {
			o := st.wobj(d.obj)
			copy(o.cells[d.off:d.off+n], src[:n])
		}
		return one(st, i64(n))
	case "delete":
		brs := e.mapDelete(st, args[0].(MapV), args[1])
		return e.branchesToOutcomes(st, brs)
	case "print", "println":
		return one(st, nil)
	case "min", "max":
		acc := args[0].(*Term)
		_, signed, _ := intWidth(cc.Args[0].Type())
		for _, a := range args[1:] {
			t := a.(*Term)
			var lt *Term
			if signed {
				lt = Slt(t, acc)
			} else {
				lt = Ult(t, acc)
			}
			if name == "max" {
				lt = Not(Or(lt, Eq(t, acc)))
			}
			acc = Ite(lt, t, acc)
		}
		return one(st, acc)
	}
	e.unsupported("builtin %s on %T", name, args[0])
	return nil
}

func (e *Engine) branchesToOutcomes(st *State, brs []branch) []Outcome {
	var feasible []branch
	for _, b := range brs {
		if b.cond == FF {
			continue
		}
		if b.cond != TT {
			q := append(append([]*Term(nil), st.pc...), b.cond)
			if e.solver.Check(q) == ResUnsat {
				continue
			}
		}
		feasible = append(feasible, b)
	}
	if len(feasible) == 1 {
		st.Assume(feasible[0].cond)
		if feasible[0].do != nil {
			feasible[0].do(st)
		}
		return one(st, feasible[0].val)
	}
	var outs []Outcome
	for _, b := range feasible {
		ns := st.Fork()
		ns.Assume(b.cond)
		if b.do != nil {
			b.do(ns)
		}
		outs = append(outs, Outcome{st: ns, ret: b.val})
	}
	return outs
}
