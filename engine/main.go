package main

import (
	"encoding/json"
	"flag"
	"fmt"
	"go/ast"
	"go/types"
	"os"
	"path/filepath"
	"runtime/debug"
	"runtime/pprof"
	"sort"
	"strings"
	"time"

	"golang.org/x/tools/go/packages"
	"golang.org/x/tools/go/ssa"
	"golang.org/x/tools/go/ssa/ssautil"
)

type Result struct {
	Harness    string                       `json:"harness"`
	Status     string                       `json:"status"` // ok | violations | undecided | error
	Error      string                       `json:"error,omitempty"`
	Violations []*Violation                 `json:"violations"`
	Known      []*Violation                 `json:"known"`
	Covers     map[string]map[string]uint64 `json:"covers"`
	CoverMiss  []string                     `json:"cover_unreached"`
	Undecided  []string                     `json:"undecided"`
	Notes      map[string]int64             `json:"notes"`
	Stats      map[string]float64           `json:"stats"`
	Funcs      []string                     `json:"functions_encoded"`
	Outcomes   int                          `json:"outcomes"`
	Params     map[string]string            `json:"params"`
	SplitGaps  []string                     `json:"split_gaps"`
}

var harnessParams = map[string]string{}

func main() {
	var (
		dir      = flag.String("dir", "/verif/harness", "harness module directory")
		pkgPat   = flag.String("pkg", "", "harness package path")
		fnName   = flag.String("fn", "", "harness function name")
		out      = flag.String("out", "", "result JSON path")
		timeout  = flag.Int("query-timeout-ms", 60000, "per-query solver timeout")
		solverF  = flag.String("solver", "z3-new", "solver binary (z3, z3-new, cvc5)")
		params   = flag.String("params", "", "k=v,k=v harness parameters (verifrt.Param)")
		overlay  = flag.String("overlay", "", "JSON file: {path: replacement file} source overlay")
		knownF   = flag.String("known", "", "comma-separated ids of open known findings")
		selftest = flag.Bool("selftest", false, "run engine self tests")
		verbose  = flag.Bool("v", false, "verbose")
	)
	flag.Parse()
	debug.SetGCPercent(400)
	solverBin = *solverF
	if pf := os.Getenv("GOSYM_PROF"); pf != "" {
		f, _ := os.Create(pf)
		pprof.StartCPUProfile(f)
		defer pprof.StopCPUProfile()
	}
	if *selftest {
		runSelfTest()
		return
	}
	for _, id := range strings.Split(*knownF, ",") {
		if id != "" {
			knownOpen[id] = true
		}
	}
	for _, kv := range strings.Split(*params, ",") {
		if i := strings.IndexByte(kv, '='); i > 0 {
			harnessParams[kv[:i]] = kv[i+1:]
		}
	}
	if p := os.Getenv("GOSYM_CONCRETE"); p != "" {
		b, err := os.ReadFile(p)
		if err != nil {
			fatalf("GOSYM_CONCRETE: %v", err)
		}
		var mf struct {
			Model map[string]uint64 `json:"model"`
		}
		if err := json.Unmarshal(b, &mf); err != nil {
			fatalf("GOSYM_CONCRETE: %v", err)
		}
		concreteModel = mf.Model
	}
	t0 := time.Now()
	res := &Result{Harness: *pkgPat + "." + *fnName, Params: harnessParams, Stats: map[string]float64{}}
	prog, pkgs := loadProgram(*dir, *pkgPat, *overlay)
	tLoad := time.Since(t0).Seconds()
	e := NewEngine(prog)
	e.solver = NewSolver(*timeout)
	defer e.solver.Close()
	e.solver.Where = func() string { return strings.Join(lastN(e.stack, 2), " > ") }
	if os.Getenv("GOSYM_QSTATS") != "" {
		e.solver.ByWhere = map[string][2]float64{}
		defer func() {
			type kv struct {
				k string
				v [2]float64
			}
			var l []kv
			for k, v := range e.solver.ByWhere {
				l = append(l, kv{k, v})
			}
			sort.Slice(l, func(i, j int) bool { return l[i].v[1] > l[j].v[1] })
			for i, x := range l {
				if i > 15 {
					break
				}
				fmt.Fprintf(os.Stderr, "%6.0f queries %7.2fs  %s\n", x.v[0], x.v[1], x.k)
			}
		}()
	}
	e.pkgs = pkgs
	var hfn *ssa.Function
	for _, p := range prog.AllPackages() {
		if p.Pkg.Path() == *pkgPat {
			hfn = p.Func(*fnName)
		}
	}
	if hfn == nil {
		fatalf("harness function %s.%s not found", *pkgPat, *fnName)
	}
	if err := e.runInits(prog, hfn.Pkg); err != nil {
		res.Status, res.Error = "error", "init: "+err.Error()
		fmt.Fprintln(os.Stderr, "gosym:", res.Error)
		writeResult(res, *out)
		os.Exit(2)
	}
	tInit := time.Since(t0).Seconds() - tLoad
	outs, err := e.Run(hfn)
	for _, o := range outs {
		if o.pan != nil {
			e.panicOutcome(o)
		}
	}
	res.Outcomes = len(outs)
	res.Violations = e.violations
	res.Known = e.knownHits
	res.Covers = e.covers
	for l := range e.coverSeen {
		if _, ok := e.covers[l]; !ok {
			res.CoverMiss = append(res.CoverMiss, l)
		}
	}
	res.SplitGaps = splitGaps()
	for _, g := range res.SplitGaps {
		e.undecided = append(e.undecided, "case split value never explored: "+g)
	}
	res.Undecided = e.undecided
	res.Notes = e.notes
	for f := range e.funcsSeen {
		res.Funcs = append(res.Funcs, f)
	}
	sort.Strings(res.Funcs)
	res.Stats = map[string]float64{
		"load_s": tLoad, "init_s": tInit, "wall_s": time.Since(t0).Seconds(),
		"steps": float64(e.steps), "states": float64(e.statesN), "forks": float64(e.forks), "merges": float64(e.merges), "merge_fail": float64(e.mergeFail),
		"queries": float64(e.solver.Queries), "sat": float64(e.solver.Sat), "unsat": float64(e.solver.Unsat), "unknown": float64(e.solver.Unknown),
		"solver_s": e.solver.Seconds, "cache_hits": float64(e.solver.CacheHits), "terms": float64(termCount), "asserts": float64(e.asserts),
	}
	switch {
	case err != nil:
		res.Status, res.Error = "error", err.Error()
	case len(e.undecided) > 0 || e.solver.Unknown > 0:
		res.Status = "undecided"
	case len(e.violations) > 0:
		res.Status = "violations"
	default:
		res.Status = "ok"
	}
	if len(e.violations) > 0 && res.Status == "undecided" {
		res.Status = "violations"
	}
	writeResult(res, *out)
	if *verbose || *out == "" {
		fmt.Fprintf(os.Stderr, "%s: %s outcomes=%d viol=%d known=%d steps=%d states=%d forks=%d merges=%d/%d queries=%d (sat %d unsat %d unk %d) solver=%.2fs wall=%.2fs\n",
			res.Harness, res.Status, len(outs), len(e.violations), len(e.knownHits), e.steps, e.statesN, e.forks, e.merges, e.mergeFail, e.solver.Queries, e.solver.Sat, e.solver.Unsat, e.solver.Unknown, e.solver.Seconds, time.Since(t0).Seconds())
		if err != nil {
			fmt.Fprintf(os.Stderr, "  error: %v\n", err)
		}
		for _, v := range e.violations {
			fmt.Fprintf(os.Stderr, "  VIOL %s at %s %s model=%v\n", v.Label, v.Pos, v.Msg, compactModel(v.Model))
		}
		for _, v := range e.knownHits {
			fmt.Fprintf(os.Stderr, "  KNOWN %s %s at %s model=%v\n", v.Known, v.Label, v.Pos, compactModel(v.Model))
		}
		for _, u := range e.undecided {
			fmt.Fprintf(os.Stderr, "  UNDECIDED %s\n", u)
		}
		for _, c := range res.CoverMiss {
			fmt.Fprintf(os.Stderr, "  COVER-UNREACHED %s\n", c)
		}
	}
	if res.Status == "error" {
		os.Exit(2)
	}
}

func compactModel(m map[string]uint64) string {
	var ks []string
	for k := range m {
		ks = append(ks, k)
	}
	sort.Strings(ks)
	var sb strings.Builder
	for i, k := range ks {
		if i > 40 {
			sb.WriteString(" ...")
			break
		}
		fmt.Fprintf(&sb, " %s=%d", k, m[k])
	}
	return sb.String()
}

func writeResult(res *Result, path string) {
	if path == "" {
		return
	}
	b, _ := json.MarshalIndent(res, "", " ")
	if err := os.WriteFile(path, b, 0o644); err != nil {
		fatalf("write result: %v", err)
	}
}

func loadProgram(dir, pkgPat, overlayFile string) (*ssa.Program, []*packages.Package) {
	cfg := &packages.Config{
		Mode: packages.NeedName | packages.NeedFiles | packages.NeedCompiledGoFiles | packages.NeedImports | packages.NeedDeps |
			packages.NeedTypes | packages.NeedSyntax | packages.NeedTypesInfo | packages.NeedTypesSizes | packages.NeedModule | packages.NeedEmbedFiles,
		Dir: dir,
		Env: append(os.Environ(), "GOFLAGS=-mod=mod", "GOPROXY=off", "GOSUMDB=off", "GOTOOLCHAIN=local"),
	}
	if overlayFile != "" {
		b, err := os.ReadFile(overlayFile)
		if err != nil {
			fatalf("overlay: %v", err)
		}
		var m map[string]string
		if err := json.Unmarshal(b, &m); err != nil {
			fatalf("overlay: %v", err)
		}
		cfg.Overlay = map[string][]byte{}
		for k, v := range m {
			c, err := os.ReadFile(v)
			if err != nil {
				fatalf("overlay: %v", err)
			}
			cfg.Overlay[k] = c
		}
	}
	pkgs, err := packages.Load(cfg, pkgPat)
	if err != nil {
		fatalf("load: %v", err)
	}
	if packages.PrintErrors(pkgs) > 0 {
		fatalf("packages contain errors")
	}
	prog, _ := ssautil.AllPackages(pkgs, ssa.InstantiateGenerics)
	prog.Build()
	var all []*packages.Package
	packages.Visit(pkgs, nil, func(p *packages.Package) { all = append(all, p) })
	return prog, all
}

// ---------- package initialisation ----------

var initStd = map[string]bool{
	"unicode/utf8": true, "strconv": true, "errors": true, "math": true, "sort": true, "strings": true,
	"github.com/agnivade/levenshtein": true, "bytes": true, "io": true,
}

func wantInit(path string) bool {
	return path != "verifh/verifrt" && (initStd[path] || strings.HasPrefix(path, "github.com/vektah/gqlparser") || strings.HasPrefix(path, "verifh"))
}

func (e *Engine) runInits(prog *ssa.Program, root *ssa.Package) error {
	// embed directives
	embeds := map[*types.Var]string{}
	for _, p := range e.pkgs {
		if !wantInit(p.PkgPath) {
			continue
		}
		for _, f := range p.Syntax {
			for _, d := range f.Decls {
				gd, ok := d.(*ast.GenDecl)
				if !ok || gd.Doc == nil {
					continue
				}
				for _, c := range gd.Doc.List {
					if strings.HasPrefix(c.Text, "//go:embed ") {
						file := strings.TrimSpace(strings.TrimPrefix(c.Text, "//go:embed "))
						for _, sp := range gd.Specs {
							vs := sp.(*ast.ValueSpec)
							if v, ok := p.TypesInfo.Defs[vs.Names[0]].(*types.Var); ok {
								embeds[v] = filepath.Join(filepath.Dir(p.GoFiles[0]), file)
							}
						}
					}
				}
			}
		}
	}
	done := map[*types.Package]bool{}
	var order []*ssa.Package
	var visit func(tp *types.Package)
	visit = func(tp *types.Package) {
		if done[tp] {
			return
		}
		done[tp] = true
		for _, imp := range tp.Imports() {
			visit(imp)
		}
		if sp := prog.Package(tp); sp != nil && wantInit(tp.Path()) {
			order = append(order, sp)
		}
	}
	visit(root.Pkg)
	st := NewState()
	e.initMode = true
	defer func() { e.initMode = false }()
	for _, sp := range order {
		// embedded files first
		for _, m := range sp.Members {
			if g, ok := m.(*ssa.Global); ok {
				if v, ok := g.Object().(*types.Var); ok {
					if file, ok := embeds[v]; ok {
						b, err := os.ReadFile(file)
						if err != nil {
							return err
						}
						id := e.globalObj(g)
						baseHeap[id].cells[0] = strConst(string(b))
					}
				}
			}
		}
		initFn := sp.Func("init")
		if initFn == nil {
			continue
		}
		e.curInit = initFn
		var outs []Outcome
		err := func() (err error) {
			defer func() {
				if r := recover(); r != nil {
					if u, ok := r.(unsupported); ok {
						err = fmt.Errorf("unsupported in init of %s: %s", sp.Pkg.Path(), u.msg)
						return
					}
					panic(r)
				}
			}()
			outs = e.callFunction(initFn, nil, nil, st, 0, nil)
			return nil
		}()
		if err != nil {
			if strings.HasPrefix(sp.Pkg.Path(), "github.com/vektah") || strings.HasPrefix(sp.Pkg.Path(), "verifh") {
				return err
			}
			continue
		}
		if len(outs) != 1 || outs[0].pan != nil {
			return fmt.Errorf("init of %s: %d outcomes", sp.Pkg.Path(), len(outs))
		}
		st = outs[0].st
	}
	e.curInit = nil
	// everything initialised so far becomes the base layer
	for id, o := range st.heap {
		o.stamp = -1
		baseHeap[id] = o
	}
	return nil
}
