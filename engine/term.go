package main

// Hash-consed SMT terms (bit-vectors and booleans) with a constant-folding,
// ite-lifting simplifier and cheap unsigned intervals.

import (
	"fmt"
	"math/bits"
	"strings"
)

type Op uint8

const (
	OpConst Op = iota // bv constant (w>0) or bool constant (w==0)
	OpVar
	OpNot
	OpAnd
	OpOr
	OpIte
	OpEq
	OpUlt
	OpUle
	OpSlt
	OpSle
	OpAdd
	OpSub
	OpMul
	OpUDiv
	OpURem
	OpSDiv
	OpSRem
	OpBAnd
	OpBOr
	OpBXor
	OpShl
	OpLShr
	OpAShr
	OpZExt  // val = new width
	OpSExt  // val = new width
	OpTrunc // val = new width (extract low bits)
)

var opNames = [...]string{"const", "var", "not", "and", "or", "ite", "=", "bvult", "bvule", "bvslt", "bvsle",
	"bvadd", "bvsub", "bvmul", "bvudiv", "bvurem", "bvsdiv", "bvsrem", "bvand", "bvor", "bvxor", "bvshl", "bvlshr", "bvashr",
	"zext", "sext", "trunc"}

type Term struct {
	id     int32
	op     Op
	w      uint8 // 0 = Bool
	a      [3]*Term
	val    uint64
	name   string
	lo, hi uint64 // unsigned interval (bv only)
	leaves int32  // >0: this is a tree of ite over constants with that many leaves; 0: not
	sent   bool   // defined in the solver
}

type termKey struct {
	op         Op
	w          uint8
	val        uint64
	a0, a1, a2 int32
}

var varTab = map[string]*Term{}

var (
	termTab   = map[termKey]*Term{}
	termCount int32
	allVars   []*Term
	axioms    []*Term // global assumptions (variable ranges), always asserted
	TT, FF    *Term
)

func init() {
	TT = mk(OpConst, 0, 1, "", nil, nil, nil)
	FF = mk(OpConst, 0, 0, "", nil, nil, nil)
}

func tid(t *Term) int32 {
	if t == nil {
		return -1
	}
	return t.id
}

func mask(w uint8) uint64 {
	if w >= 64 {
		return ^uint64(0)
	}
	return (uint64(1) << w) - 1
}

func mk(op Op, w uint8, val uint64, name string, a0, a1, a2 *Term) *Term {
	k := termKey{op, w, val, tid(a0), tid(a1), tid(a2)}
	if op == OpVar {
		if t, ok := varTab[name]; ok {
			return t
		}
	} else if t, ok := termTab[k]; ok {
		return t
	}
	t := &Term{id: termCount, op: op, w: w, val: val, name: name, a: [3]*Term{a0, a1, a2}}
	termCount++
	if op == OpVar {
		varTab[name] = t
	} else {
		termTab[k] = t
	}
	// interval + const-tree info
	if w > 0 {
		t.lo, t.hi = 0, mask(w)
		switch op {
		case OpConst:
			t.lo, t.hi = val, val
			t.leaves = 1
		case OpIte:
			t.lo, t.hi = min64(a1.lo, a2.lo), max64(a1.hi, a2.hi)
		case OpZExt:
			t.lo, t.hi = a0.lo, a0.hi
		case OpTrunc:
			if a0.hi <= mask(w) {
				t.lo, t.hi = a0.lo, a0.hi
			}
		case OpAdd:
			if h, c := bits.Add64(a0.hi, a1.hi, 0); c == 0 && h <= mask(w) {
				t.lo, t.hi = a0.lo+a1.lo, h
			}
		case OpSub:
			if a0.lo >= a1.hi {
				t.lo, t.hi = a0.lo-a1.hi, a0.hi-a1.lo
			}
		case OpBAnd:
			t.hi = min64(a0.hi, a1.hi)
		case OpURem:
			if a1.lo > 0 {
				t.hi = a1.hi - 1
			}
		case OpLShr:
			t.hi = a0.hi
		case OpUDiv:
			t.hi = a0.hi
		}
	} else if op == OpConst {
		t.leaves = 1
	}
	return t
}

func min64(a, b uint64) uint64 {
	if a < b {
		return a
	}
	return b
}
func max64(a, b uint64) uint64 {
	if a > b {
		return a
	}
	return b
}

func (t *Term) IsConst() bool { return t.op == OpConst }
func (t *Term) IsBool() bool  { return t.w == 0 }
func (t *Term) IsTrue() bool  { return t == TT }
func (t *Term) IsFalse() bool { return t == FF }

// Signed value of a constant.
func (t *Term) SVal() int64 {
	return sext64(t.val, t.w)
}

func sext64(v uint64, w uint8) int64 {
	if w >= 64 {
		return int64(v)
	}
	sh := 64 - uint(w)
	return int64(v<<sh) >> sh
}

func BV(v uint64, w uint8) *Term { return mk(OpConst, w, v&mask(w), "", nil, nil, nil) }
func BVs(v int64, w uint8) *Term { return BV(uint64(v), w) }
func Bool(b bool) *Term {
	if b {
		return TT
	}
	return FF
}

// NewVar declares a fresh variable. w==0 for Bool.
// concreteModel, when set, turns named variables into constants (the engine
// then runs as a plain interpreter on that input).
var concreteModel map[string]uint64

func NewVar(name string, w uint8) *Term {
	if concreteModel != nil {
		if v, ok := concreteModel[name]; ok {
			if w == 0 {
				return Bool(v != 0)
			}
			return BV(v, w)
		}
	}
	before := termCount
	t := mk(OpVar, w, 0, name, nil, nil, nil)
	if termCount != before {
		allVars = append(allVars, t)
	}
	return t
}

// NewVarRange declares a bv variable with an unsigned range [lo,hi]; the
// range is asserted as an axiom and recorded in the interval.
// declaredRange remembers the range a variable was declared with; declaring the
// same name again with another range is an error (it would silently restrict
// or widen the values explored on some path).
var declaredRange = map[string][2]uint64{}

func NewVarRange(name string, w uint8, lo, hi uint64) *Term {
	t := NewVar(name, w)
	if t.op == OpConst {
		return t
	}
	if r, ok := declaredRange[name]; ok {
		if r != [2]uint64{lo, hi} {
			panic(unsupported{fmt.Sprintf("symbolic variable %q declared twice with different ranges [%d,%d] and [%d,%d]: variable names must be unique per meaning", name, r[0], r[1], lo, hi)})
		}
	} else {
		declaredRange[name] = [2]uint64{lo, hi}
	}
	if t.lo == 0 && t.hi == mask(w) && (lo != 0 || hi != mask(w)) {
		t.lo, t.hi = lo, hi
		if lo > 0 {
			axioms = append(axioms, mk(OpUle, 0, 0, "", BV(lo, w), t, nil))
		}
		if hi < mask(w) {
			axioms = append(axioms, mk(OpUle, 0, 0, "", t, BV(hi, w), nil))
		}
	}
	return t
}

func AddAxiom(t *Term) {
	if t.IsTrue() {
		return
	}
	axioms = append(axioms, t)
}

// ---------- boolean builders ----------

func Not(a *Term) *Term {
	switch {
	case a == TT:
		return FF
	case a == FF:
		return TT
	case a.op == OpNot:
		return a.a[0]
	case a.op == OpIte && a.w == 0 && a.a[1].IsConst() && a.a[2].IsConst():
		return Ite(a.a[0], Not(a.a[1]), Not(a.a[2]))
	}
	return mk(OpNot, 0, 0, "", a, nil, nil)
}

func And(a, b *Term) *Term {
	switch {
	case a == FF || b == FF:
		return FF
	case a == TT:
		return b
	case b == TT:
		return a
	case a == b:
		return a
	case a == Not(b):
		return FF
	}
	// absorption: a ∧ (a ∧ x)
	if b.op == OpAnd && (b.a[0] == a || b.a[1] == a) {
		return b
	}
	if a.op == OpAnd && (a.a[0] == b || a.a[1] == b) {
		return a
	}
	// a ∧ (¬a ∨ x) = a ∧ x
	if b.op == OpOr {
		na := Not(a)
		if b.a[0] == na {
			return And(a, b.a[1])
		}
		if b.a[1] == na {
			return And(a, b.a[0])
		}
	}
	if a.op == OpOr {
		nb := Not(b)
		if a.a[0] == nb {
			return And(b, a.a[1])
		}
		if a.a[1] == nb {
			return And(b, a.a[0])
		}
	}
	if a.id > b.id {
		a, b = b, a
	}
	return mk(OpAnd, 0, 0, "", a, b, nil)
}

func Or(a, b *Term) *Term {
	switch {
	case a == TT || b == TT:
		return TT
	case a == FF:
		return b
	case b == FF:
		return a
	case a == b:
		return a
	case a == Not(b):
		return TT
	}
	if b.op == OpOr && (b.a[0] == a || b.a[1] == a) {
		return b
	}
	if a.op == OpOr && (a.a[0] == b || a.a[1] == b) {
		return a
	}
	// a ∨ (¬a ∧ x) = a ∨ x
	if b.op == OpAnd {
		na := Not(a)
		if b.a[0] == na {
			return Or(a, b.a[1])
		}
		if b.a[1] == na {
			return Or(a, b.a[0])
		}
	}
	if a.op == OpAnd {
		nb := Not(b)
		if a.a[0] == nb {
			return Or(b, a.a[1])
		}
		if a.a[1] == nb {
			return Or(b, a.a[0])
		}
	}
	// (x ∧ y) ∨ (x ∧ ¬y) = x
	if a.op == OpAnd && b.op == OpAnd {
		for i := 0; i < 2; i++ {
			for j := 0; j < 2; j++ {
				if a.a[i] == b.a[j] && a.a[1-i] == Not(b.a[1-j]) {
					return a.a[i]
				}
			}
		}
	}
	if a.id > b.id {
		a, b = b, a
	}
	return mk(OpOr, 0, 0, "", a, b, nil)
}

func AndAll(ts ...*Term) *Term {
	r := TT
	for _, t := range ts {
		r = And(r, t)
	}
	return r
}

func Implies(a, b *Term) *Term { return Or(Not(a), b) }

func Ite(c, a, b *Term) *Term {
	switch {
	case c == TT:
		return a
	case c == FF:
		return b
	case a == b:
		return a
	}
	if c.op == OpNot {
		return Ite(c.a[0], b, a)
	}
	if a.w == 0 {
		if a == TT && b == FF {
			return c
		}
		if a == FF && b == TT {
			return Not(c)
		}
		if a == TT {
			return Or(c, b)
		}
		if a == FF {
			return And(Not(c), b)
		}
		if b == TT {
			return Or(Not(c), a)
		}
		if b == FF {
			return And(c, a)
		}
	}
	// ite(c, ite(c, x, y), z) = ite(c, x, z)
	if a.op == OpIte && a.a[0] == c && a.leaves == 0 {
		a = a.a[1]
	}
	if b.op == OpIte && b.a[0] == c && b.leaves == 0 {
		b = b.a[2]
	}
	if a == b {
		return a
	}
	if a.w > 0 && a.leaves > 0 && b.leaves > 0 && a.leaves+b.leaves <= 256 {
		va, _ := getVS(a)
		vb, _ := getVS(b)
		m := map[uint64]*Term{}
		for _, e := range va {
			m[e.val] = And(c, e.g)
		}
		nc := Not(c)
		for _, e := range vb {
			g := And(nc, e.g)
			if old, ok := m[e.val]; ok {
				m[e.val] = Or(old, g)
			} else {
				m[e.val] = g
			}
		}
		return fromVS(a.w, m)
	}
	// ite(c, x, ite(d, x, y)) = ite(c∨d, x, y)
	if b.op == OpIte && b.a[1] == a && b.leaves == 0 {
		return Ite(Or(c, b.a[0]), a, b.a[2])
	}
	return mk(OpIte, a.w, 0, "", c, a, b)
}

const liftLimit = 96

// Value sets. A bit-vector term that can only take finitely many constant
// values is kept in a canonical form: a chain ite(g1,c1, ite(g2,c2, ... ck))
// with distinct ascending constants and guards that are exact (gi <=> value = ci)
// and therefore mutually exclusive. The guards are remembered in vsets.
type vg struct {
	val uint64
	g   *Term
}

var vsets = map[*Term][]vg{}

func getVS(t *Term) ([]vg, bool) {
	if t.op == OpConst {
		return []vg{{t.val, TT}}, true
	}
	if t.leaves > 0 {
		vs, ok := vsets[t]
		return vs, ok
	}
	return nil, false
}

func fromVS(w uint8, m map[uint64]*Term) *Term {
	var list []vg
	for v, g := range m {
		if g != FF {
			list = append(list, vg{v, g})
		}
	}
	if len(list) == 0 {
		return BV(0, w) // unreachable value
	}
	sortVG(list)
	if len(list) == 1 {
		return BV(list[0].val, w)
	}
	t := BV(list[len(list)-1].val, w)
	for i := len(list) - 2; i >= 0; i-- {
		t = mk(OpIte, w, 0, "", list[i].g, BV(list[i].val, w), t)
	}
	t.leaves = int32(len(list))
	if _, ok := vsets[t]; !ok {
		vsets[t] = list
	}
	t.lo, t.hi = list[0].val, list[len(list)-1].val
	return t
}

func sortVG(l []vg) {
	for i := 1; i < len(l); i++ {
		for j := i; j > 0 && l[j].val < l[j-1].val; j-- {
			l[j], l[j-1] = l[j-1], l[j]
		}
	}
}

// lift1 maps f over the constant values of a value-set term.
func lift1(t *Term, f func(*Term) *Term) *Term {
	vs, _ := getVS(t)
	var res *Term
	// results may be bool or bv constants
	type rg struct {
		r *Term
		g *Term
	}
	var parts []rg
	for _, e := range vs {
		parts = append(parts, rg{f(BV(e.val, t.w)), e.g})
	}
	if parts[0].r.w == 0 {
		res = FF
		for _, p := range parts {
			res = Or(res, And(p.g, p.r))
		}
		return res
	}
	allConst := true
	for _, p := range parts {
		if p.r.op != OpConst {
			allConst = false
		}
	}
	if allConst {
		m := map[uint64]*Term{}
		for _, p := range parts {
			if g, ok := m[p.r.val]; ok {
				m[p.r.val] = Or(g, p.g)
			} else {
				m[p.r.val] = p.g
			}
		}
		return fromVS(parts[0].r.w, m)
	}
	res = parts[len(parts)-1].r
	for i := len(parts) - 2; i >= 0; i-- {
		res = Ite(parts[i].g, parts[i].r, res)
	}
	return res
}

func liftable(a, b *Term) bool {
	if a.leaves == 0 || b.leaves == 0 {
		return false
	}
	return a.leaves*b.leaves <= liftLimit
}

func lift2(a, b *Term, f func(x, y *Term) *Term) *Term {
	if a.op == OpConst && b.op == OpConst {
		return f(a, b)
	}
	va, _ := getVS(a)
	vb, _ := getVS(b)
	isBool := false
	m := map[uint64]*Term{}
	resB := FF
	var w uint8
	for _, x := range va {
		for _, y := range vb {
			g := And(x.g, y.g)
			if g == FF {
				continue
			}
			r := f(BV(x.val, a.w), BV(y.val, b.w))
			if r.w == 0 {
				isBool = true
				resB = Or(resB, And(g, r))
				continue
			}
			w = r.w
			if old, ok := m[r.val]; ok {
				m[r.val] = Or(old, g)
			} else {
				m[r.val] = g
			}
		}
	}
	if isBool {
		return resB
	}
	if len(m) == 0 {
		return f(BV(va[0].val, a.w), BV(vb[0].val, b.w))
	}
	return fromVS(w, m)
}

// ---------- comparison builders ----------

func Eq(a, b *Term) *Term {
	if a == b {
		return TT
	}
	if a.w != b.w {
		panic(fmt.Sprintf("Eq width mismatch %d %d: %s %s", a.w, b.w, a, b))
	}
	if a.w == 0 {
		switch {
		case a == TT:
			return b
		case b == TT:
			return a
		case a == FF:
			return Not(b)
		case b == FF:
			return Not(a)
		}
		if a.id > b.id {
			a, b = b, a
		}
		return mk(OpEq, 0, 0, "", a, b, nil)
	}
	if a.op == OpConst && b.op == OpConst {
		return Bool(a.val == b.val)
	}
	if a.hi < b.lo || b.hi < a.lo {
		return FF
	}
	if liftable(a, b) {
		return lift2(a, b, func(x, y *Term) *Term { return Bool(x.val == y.val) })
	}
	// eq(zext(x), const) -> eq(x, const') when const fits
	if b.op == OpConst && a.op == OpZExt {
		if b.val <= mask(a.a[0].w) {
			return Eq(a.a[0], BV(b.val, a.a[0].w))
		}
		return FF
	}
	if a.op == OpConst && b.op == OpZExt {
		return Eq(b, a)
	}
	// eq(ite(c,x,y), k) with const k: push inside when one side is const
	if b.op == OpConst && a.op == OpIte && a.leaves == 0 && (a.a[1].op == OpConst || a.a[2].op == OpConst) {
		return Ite(a.a[0], Eq(a.a[1], b), Eq(a.a[2], b))
	}
	if a.op == OpConst && b.op == OpIte && b.leaves == 0 && (b.a[1].op == OpConst || b.a[2].op == OpConst) {
		return Ite(b.a[0], Eq(b.a[1], a), Eq(b.a[2], a))
	}
	if a.id > b.id {
		a, b = b, a
	}
	return mk(OpEq, 0, 0, "", a, b, nil)
}

func Ult(a, b *Term) *Term {
	if a == b {
		return FF
	}
	if a.hi < b.lo {
		return TT
	}
	if a.lo >= b.hi {
		return FF
	}
	if liftable(a, b) {
		return lift2(a, b, func(x, y *Term) *Term { return Bool(x.val < y.val) })
	}
	if a.op == OpZExt && b.op == OpConst && b.val <= mask(a.a[0].w) {
		return Ult(a.a[0], BV(b.val, a.a[0].w))
	}
	if b.op == OpZExt && a.op == OpConst && a.val <= mask(b.a[0].w) {
		return Ult(BV(a.val, b.a[0].w), b.a[0])
	}
	if a.op == OpZExt && b.op == OpZExt && a.a[0].w == b.a[0].w {
		return Ult(a.a[0], b.a[0])
	}
	return mk(OpUlt, 0, 0, "", a, b, nil)
}

func Ule(a, b *Term) *Term { return Not(Ult(b, a)) }

func signedOK(t *Term) bool { return t.hi <= mask(t.w)>>1 } // non-negative as signed

func Slt(a, b *Term) *Term {
	if a == b {
		return FF
	}
	if signedOK(a) && signedOK(b) {
		return Ult(a, b)
	}
	if liftable(a, b) {
		return lift2(a, b, func(x, y *Term) *Term { return Bool(x.SVal() < y.SVal()) })
	}
	if a.op == OpSExt && b.op == OpSExt && a.a[0].w == b.a[0].w {
		return Slt(a.a[0], b.a[0])
	}
	return mk(OpSlt, 0, 0, "", a, b, nil)
}

func Sle(a, b *Term) *Term { return Not(Slt(b, a)) }

// ---------- arithmetic ----------

func binArith(op Op, a, b *Term, f func(x, y uint64, w uint8) (uint64, bool)) *Term {
	if a.w != b.w {
		panic(fmt.Sprintf("width mismatch in %s: %d vs %d", opNames[op], a.w, b.w))
	}
	if liftable(a, b) {
		ok := true
		r := lift2(a, b, func(x, y *Term) *Term {
			v, o := f(x.val, y.val, a.w)
			if !o {
				ok = false
				return x
			}
			return BV(v, a.w)
		})
		if ok {
			return r
		}
	}
	return mk(op, a.w, 0, "", a, b, nil)
}

func Add(a, b *Term) *Term {
	if b.op == OpConst && b.val == 0 {
		return a
	}
	if a.op == OpConst && a.val == 0 {
		return b
	}
	// (x + c1) + c2
	if b.op == OpConst && a.op == OpAdd && a.a[1].op == OpConst {
		return Add(a.a[0], BV(a.a[1].val+b.val, a.w))
	}
	if a.op == OpConst && b.op != OpConst {
		a, b = b, a
	}
	return binArith(OpAdd, a, b, func(x, y uint64, w uint8) (uint64, bool) { return x + y, true })
}

func Sub(a, b *Term) *Term {
	if b.op == OpConst && b.val == 0 {
		return a
	}
	if a == b {
		return BV(0, a.w)
	}
	if b.op == OpConst && b.leaves == 1 && a.leaves == 0 {
		return Add(a, BV(-b.val, a.w))
	}
	return binArith(OpSub, a, b, func(x, y uint64, w uint8) (uint64, bool) { return x - y, true })
}

func Mul(a, b *Term) *Term {
	if a.op == OpConst && b.op != OpConst {
		a, b = b, a
	}
	if b.op == OpConst {
		if b.val == 0 {
			return b
		}
		if b.val == 1 {
			return a
		}
	}
	return binArith(OpMul, a, b, func(x, y uint64, w uint8) (uint64, bool) { return x * y, true })
}

func UDiv(a, b *Term) *Term {
	return binArith(OpUDiv, a, b, func(x, y uint64, w uint8) (uint64, bool) {
		if y == 0 {
			return 0, false
		}
		return x / y, true
	})
}
func URem(a, b *Term) *Term {
	return binArith(OpURem, a, b, func(x, y uint64, w uint8) (uint64, bool) {
		if y == 0 {
			return 0, false
		}
		return x % y, true
	})
}
func SDiv(a, b *Term) *Term {
	return binArith(OpSDiv, a, b, func(x, y uint64, w uint8) (uint64, bool) {
		if y&mask(w) == 0 {
			return 0, false
		}
		xs, ys := sext64(x, w), sext64(y, w)
		if ys == -1 {
			return uint64(-xs), true
		}
		return uint64(xs / ys), true
	})
}
func SRem(a, b *Term) *Term {
	return binArith(OpSRem, a, b, func(x, y uint64, w uint8) (uint64, bool) {
		if y&mask(w) == 0 {
			return 0, false
		}
		xs, ys := sext64(x, w), sext64(y, w)
		if ys == -1 {
			return 0, true
		}
		return uint64(xs % ys), true
	})
}
func BAnd(a, b *Term) *Term {
	if a == b {
		return a
	}
	if b.op == OpConst && b.val == mask(b.w) {
		return a
	}
	if b.op == OpConst && b.val == 0 {
		return b
	}
	return binArith(OpBAnd, a, b, func(x, y uint64, w uint8) (uint64, bool) { return x & y, true })
}
func BOr(a, b *Term) *Term {
	if a == b {
		return a
	}
	if b.op == OpConst && b.val == 0 {
		return a
	}
	if a.op == OpConst && a.val == 0 {
		return b
	}
	return binArith(OpBOr, a, b, func(x, y uint64, w uint8) (uint64, bool) { return x | y, true })
}
func BXor(a, b *Term) *Term {
	if a == b {
		return BV(0, a.w)
	}
	return binArith(OpBXor, a, b, func(x, y uint64, w uint8) (uint64, bool) { return x ^ y, true })
}

// Shifts: b is the shift count, already converted to a's width with
// saturation handled by the caller (Go semantics: count >= width gives 0 / sign).
func Shl(a, b *Term) *Term {
	if b.op == OpConst && b.val == 0 {
		return a
	}
	return binArith(OpShl, a, b, func(x, y uint64, w uint8) (uint64, bool) {
		if y >= uint64(w) {
			return 0, true
		}
		return x << y, true
	})
}
func LShr(a, b *Term) *Term {
	if b.op == OpConst && b.val == 0 {
		return a
	}
	return binArith(OpLShr, a, b, func(x, y uint64, w uint8) (uint64, bool) {
		if y >= uint64(w) {
			return 0, true
		}
		return (x & mask(w)) >> y, true
	})
}
func AShr(a, b *Term) *Term {
	if b.op == OpConst && b.val == 0 {
		return a
	}
	return binArith(OpAShr, a, b, func(x, y uint64, w uint8) (uint64, bool) {
		xs := sext64(x, w)
		if y >= uint64(w) {
			y = uint64(w) - 1
		}
		return uint64(xs >> y), true
	})
}

func Neg(a *Term) *Term  { return Sub(BV(0, a.w), a) }
func BNot(a *Term) *Term { return BXor(a, BV(mask(a.w), a.w)) }

func ZExt(a *Term, w uint8) *Term {
	if a.w == w {
		return a
	}
	if a.w > w {
		return Trunc(a, w)
	}
	if a.leaves > 0 {
		return lift1(a, func(x *Term) *Term { return BV(x.val, w) })
	}
	if a.op == OpZExt {
		return ZExt(a.a[0], w)
	}
	return mk(OpZExt, w, uint64(w), "", a, nil, nil)
}

func SExt(a *Term, w uint8) *Term {
	if a.w == w {
		return a
	}
	if a.w > w {
		return Trunc(a, w)
	}
	if a.leaves > 0 {
		return lift1(a, func(x *Term) *Term { return BVs(x.SVal(), w) })
	}
	if signedOK(a) {
		return ZExt(a, w)
	}
	return mk(OpSExt, w, uint64(w), "", a, nil, nil)
}

func Trunc(a *Term, w uint8) *Term {
	if a.w == w {
		return a
	}
	if a.w < w {
		panic("Trunc widening")
	}
	if a.leaves > 0 {
		return lift1(a, func(x *Term) *Term { return BV(x.val, w) })
	}
	if (a.op == OpZExt || a.op == OpSExt) && a.a[0].w == w {
		return a.a[0]
	}
	if (a.op == OpZExt || a.op == OpSExt) && a.a[0].w < w {
		if a.op == OpZExt {
			return ZExt(a.a[0], w)
		}
		return SExt(a.a[0], w)
	}
	return mk(OpTrunc, w, uint64(w), "", a, nil, nil)
}

// ---------- printing ----------

func (t *Term) String() string {
	var sb strings.Builder
	t.write(&sb, 0)
	return sb.String()
}

func (t *Term) write(sb *strings.Builder, depth int) {
	if depth > 6 {
		fmt.Fprintf(sb, "#%d", t.id)
		return
	}
	switch t.op {
	case OpConst:
		if t.w == 0 {
			if t.val == 1 {
				sb.WriteString("true")
			} else {
				sb.WriteString("false")
			}
		} else {
			fmt.Fprintf(sb, "%d", t.SVal())
		}
	case OpVar:
		sb.WriteString(t.name)
	default:
		sb.WriteString("(")
		sb.WriteString(opNames[t.op])
		for _, a := range t.a {
			if a != nil {
				sb.WriteString(" ")
				a.write(sb, depth+1)
			}
		}
		sb.WriteString(")")
	}
}

func sortOf(w uint8) string {
	if w == 0 {
		return "Bool"
	}
	return fmt.Sprintf("(_ BitVec %d)", w)
}

func smtName(t *Term) string {
	switch t.op {
	case OpConst:
		if t.w == 0 {
			if t.val == 1 {
				return "true"
			}
			return "false"
		}
		if t.w%4 == 0 {
			return fmt.Sprintf("#x%0*x", int(t.w/4), t.val)
		}
		return fmt.Sprintf("(_ bv%d %d)", t.val, t.w)
	case OpVar:
		return "|" + t.name + "|"
	}
	return fmt.Sprintf("t%d", t.id)
}

// smtBody renders the defining expression of a non-leaf term over the names of
// its children.
func smtBody(t *Term) string {
	a0, a1, a2 := t.a[0], t.a[1], t.a[2]
	switch t.op {
	case OpZExt:
		return fmt.Sprintf("((_ zero_extend %d) %s)", t.w-a0.w, smtName(a0))
	case OpSExt:
		return fmt.Sprintf("((_ sign_extend %d) %s)", t.w-a0.w, smtName(a0))
	case OpTrunc:
		return fmt.Sprintf("((_ extract %d 0) %s)", t.w-1, smtName(a0))
	case OpNot:
		return fmt.Sprintf("(not %s)", smtName(a0))
	case OpIte:
		return fmt.Sprintf("(ite %s %s %s)", smtName(a0), smtName(a1), smtName(a2))
	}
	return fmt.Sprintf("(%s %s %s)", opNames[t.op], smtName(a0), smtName(a1))
}

// evalTerm evaluates a term under a model (variable name -> value).
func evalTerm(t *Term, model map[string]uint64, memo map[*Term]uint64) uint64 {
	if t.op == OpConst {
		return t.val
	}
	if v, ok := memo[t]; ok {
		return v
	}
	var r uint64
	ev := func(x *Term) uint64 { return evalTerm(x, model, memo) }
	b2u := func(b bool) uint64 {
		if b {
			return 1
		}
		return 0
	}
	switch t.op {
	case OpVar:
		r = model[t.name] & maskB(t.w)
	case OpNot:
		r = 1 - ev(t.a[0])
	case OpAnd:
		r = ev(t.a[0]) & ev(t.a[1])
	case OpOr:
		r = ev(t.a[0]) | ev(t.a[1])
	case OpIte:
		if ev(t.a[0]) == 1 {
			r = ev(t.a[1])
		} else {
			r = ev(t.a[2])
		}
	case OpEq:
		r = b2u(ev(t.a[0]) == ev(t.a[1]))
	case OpUlt:
		r = b2u(ev(t.a[0]) < ev(t.a[1]))
	case OpUle:
		r = b2u(ev(t.a[0]) <= ev(t.a[1]))
	case OpSlt:
		r = b2u(sext64(ev(t.a[0]), t.a[0].w) < sext64(ev(t.a[1]), t.a[1].w))
	case OpSle:
		r = b2u(sext64(ev(t.a[0]), t.a[0].w) <= sext64(ev(t.a[1]), t.a[1].w))
	case OpZExt:
		r = ev(t.a[0])
	case OpSExt:
		r = uint64(sext64(ev(t.a[0]), t.a[0].w)) & mask(t.w)
	case OpTrunc:
		r = ev(t.a[0]) & mask(t.w)
	default:
		x, y := ev(t.a[0]), ev(t.a[1])
		w := t.w
		switch t.op {
		case OpAdd:
			r = x + y
		case OpSub:
			r = x - y
		case OpMul:
			r = x * y
		case OpUDiv:
			if y == 0 {
				r = mask(w)
			} else {
				r = x / y
			}
		case OpURem:
			if y == 0 {
				r = x
			} else {
				r = x % y
			}
		case OpSDiv:
			xs, ys := sext64(x, w), sext64(y, w)
			if ys == 0 {
				if xs < 0 {
					r = 1
				} else {
					r = mask(w)
				}
			} else if ys == -1 {
				r = uint64(-xs)
			} else {
				r = uint64(xs / ys)
			}
		case OpSRem:
			xs, ys := sext64(x, w), sext64(y, w)
			if ys == 0 {
				r = x
			} else if ys == -1 {
				r = 0
			} else {
				r = uint64(xs % ys)
			}
		case OpBAnd:
			r = x & y
		case OpBOr:
			r = x | y
		case OpBXor:
			r = x ^ y
		case OpShl:
			if y >= uint64(w) {
				r = 0
			} else {
				r = x << y
			}
		case OpLShr:
			if y >= uint64(w) {
				r = 0
			} else {
				r = x >> y
			}
		case OpAShr:
			if y >= uint64(w) {
				y = uint64(w) - 1
			}
			r = uint64(sext64(x, w) >> y)
		default:
			panic("evalTerm: op " + opNames[t.op])
		}
		r &= mask(w)
	}
	memo[t] = r
	return r
}

func maskB(w uint8) uint64 {
	if w == 0 {
		return 1
	}
	return mask(w)
}

// ---------- single-variable conditions over small domains ----------

var multiVar = &Term{id: -2}
var termVarCache = map[*Term]*Term{}

// singleVar returns the only variable t depends on, nil if none, multiVar if several.
func singleVar(t *Term) *Term {
	switch t.op {
	case OpConst:
		return nil
	case OpVar:
		return t
	}
	if v, ok := termVarCache[t]; ok {
		return v
	}
	var res *Term
	for _, a := range t.a {
		if a == nil {
			continue
		}
		v := singleVar(a)
		if v == nil {
			continue
		}
		if v == multiVar || (res != nil && res != v) {
			res = multiVar
			break
		}
		res = v
	}
	termVarCache[t] = res
	return res
}

// domMask evaluates the boolean term c for every value of v in dom (bit i =
// value v.lo+i) and returns the subset on which it is true.
func domMask(c, v *Term, dom uint64) uint64 {
	var m uint64
	model := map[string]uint64{}
	for i := uint64(0); i < 64; i++ {
		if dom&(1<<i) == 0 {
			continue
		}
		model[v.name] = v.lo + i
		if evalTerm(c, model, map[*Term]uint64{}) == 1 {
			m |= 1 << i
		}
	}
	return m
}

func fullDom(v *Term) (uint64, bool) {
	if v.w == 0 || v.hi-v.lo >= 64 {
		return 0, false
	}
	n := v.hi - v.lo + 1
	if n == 64 {
		return ^uint64(0), true
	}
	return (uint64(1) << n) - 1, true
}
