package main

// Per-function static info: register numbering, natural loops, a loop-contiguous
// topological block order, liveness.

import (
	"sort"

	"golang.org/x/tools/go/ssa"
)

type loopInfo struct {
	header *ssa.BasicBlock
	blocks map[int]bool
	parent *loopInfo
	depth  int // 1 = outermost
	idx    int
}

type fnInfo struct {
	fn      *ssa.Function
	regOf   map[ssa.Value]int
	nregs   int
	loops   []*loopInfo
	loopOf  []*loopInfo // innermost loop per block index (nil if none)
	pos     []int       // linear position per block index
	liveIn  [][]bool    // per block: live registers at entry (phis of the block included as live)
	liveAll [][]bool    // per block: liveIn ∪ defs in block (safe over-approx for mid-block merges)
	hasLoop bool
	chains  [][]*loopInfo
	chainOK []bool
}

var fnInfos = map[*ssa.Function]*fnInfo{}

func getFnInfo(fn *ssa.Function) *fnInfo {
	if fi, ok := fnInfos[fn]; ok {
		return fi
	}
	fi := &fnInfo{fn: fn, regOf: map[ssa.Value]int{}}
	n := 0
	for _, p := range fn.Params {
		fi.regOf[p] = n
		n++
	}
	for _, fv := range fn.FreeVars {
		fi.regOf[fv] = n
		n++
	}
	for _, b := range fn.Blocks {
		for _, ins := range b.Instrs {
			if v, ok := ins.(ssa.Value); ok {
				fi.regOf[v] = n
				n++
			}
		}
	}
	fi.nregs = n
	fi.computeLoops()
	fi.computeOrder()
	fi.computeLiveness()
	fnInfos[fn] = fi
	return fi
}

func (fi *fnInfo) computeLoops() {
	fn := fi.fn
	nb := len(fn.Blocks)
	fi.loopOf = make([]*loopInfo, nb)
	byHeader := map[int]*loopInfo{}
	for _, b := range fn.Blocks {
		for _, s := range b.Succs {
			if s.Dominates(b) { // back edge b -> s
				l := byHeader[s.Index]
				if l == nil {
					l = &loopInfo{header: s, blocks: map[int]bool{s.Index: true}}
					byHeader[s.Index] = l
					fi.loops = append(fi.loops, l)
				}
				// natural loop: all nodes that reach b without passing s
				stack := []*ssa.BasicBlock{b}
				for len(stack) > 0 {
					x := stack[len(stack)-1]
					stack = stack[:len(stack)-1]
					if l.blocks[x.Index] {
						continue
					}
					l.blocks[x.Index] = true
					for _, p := range x.Preds {
						stack = append(stack, p)
					}
				}
			}
		}
	}
	fi.hasLoop = len(fi.loops) > 0
	// nesting: sort by size ascending; parent = smallest strictly containing loop
	sort.Slice(fi.loops, func(i, j int) bool { return len(fi.loops[i].blocks) < len(fi.loops[j].blocks) })
	for i, l := range fi.loops {
		l.idx = i
		for j := i + 1; j < len(fi.loops); j++ {
			if fi.loops[j].blocks[l.header.Index] && fi.loops[j] != l {
				l.parent = fi.loops[j]
				break
			}
		}
	}
	for _, l := range fi.loops {
		d := 0
		for p := l; p != nil; p = p.parent {
			d++
		}
		l.depth = d
	}
	for _, b := range fn.Blocks {
		for _, l := range fi.loops { // ascending size: first hit is innermost
			if l.blocks[b.Index] {
				fi.loopOf[b.Index] = l
				break
			}
		}
	}
}

// computeOrder assigns positions so that every loop's blocks are contiguous
// with the header first and the order respects forward edges.
func (fi *fnInfo) computeOrder() {
	fn := fi.fn
	fi.pos = make([]int, len(fn.Blocks))
	next := 0
	// region = set of blocks + entry; children loops collapsed
	var layout func(blocks map[int]bool, entry *ssa.BasicBlock, self *loopInfo)
	layout = func(blocks map[int]bool, entry *ssa.BasicBlock, self *loopInfo) {
		// node representative: for a block in a child loop (direct child of self) use that loop's header
		rep := func(b *ssa.BasicBlock) int {
			l := fi.loopOf[b.Index]
			for l != nil && l.parent != self && l != self {
				l = l.parent
			}
			if l != nil && l != self {
				return l.header.Index
			}
			return b.Index
		}
		childLoop := func(h int) *loopInfo {
			for _, l := range fi.loops {
				if l.header.Index == h && l.parent == self && l != self {
					return l
				}
			}
			return nil
		}
		// build DAG over representatives
		succs := map[int]map[int]bool{}
		indeg := map[int]int{}
		nodes := map[int]bool{}
		for bi := range blocks {
			nodes[rep(fn.Blocks[bi])] = true
		}
		for bi := range blocks {
			b := fn.Blocks[bi]
			rb := rep(b)
			for _, s := range b.Succs {
				if !blocks[s.Index] {
					continue
				}
				if s == entry { // back edge of this region's loop
					continue
				}
				rs := rep(s)
				if rs == rb {
					continue
				}
				if succs[rb] == nil {
					succs[rb] = map[int]bool{}
				}
				if !succs[rb][rs] {
					succs[rb][rs] = true
					indeg[rs]++
				}
			}
		}
		// Kahn with deterministic tie-break (smallest block index)
		var ready []int
		for n := range nodes {
			if indeg[n] == 0 {
				ready = append(ready, n)
			}
		}
		done := 0
		for len(ready) > 0 {
			sort.Ints(ready)
			// prefer the entry first
			pick := 0
			for i, r := range ready {
				if r == rep(entry) {
					pick = i
				}
			}
			n := ready[pick]
			ready = append(ready[:pick], ready[pick+1:]...)
			done++
			if cl := childLoop(n); cl != nil {
				layout(cl.blocks, cl.header, cl)
			} else {
				fi.pos[n] = next
				next++
			}
			for s := range succs[n] {
				indeg[s]--
				if indeg[s] == 0 {
					ready = append(ready, s)
				}
			}
		}
		if done != len(nodes) {
			// irreducible or unexpected: fall back to index order for the rest
			for n := range nodes {
				_ = n
			}
			panic("cfg: could not order blocks of " + fn.String())
		}
	}
	all := map[int]bool{}
	for _, b := range fn.Blocks {
		all[b.Index] = true
	}
	if len(fn.Blocks) > 0 {
		// unreachable blocks are removed by ssa; recover block (if any) is separate
		layout(all, fn.Blocks[0], nil)
	}
}

func (fi *fnInfo) computeLiveness() {
	fn := fi.fn
	nb := len(fn.Blocks)
	n := fi.nregs
	use := make([][]bool, nb)   // used before def in block (excluding phi operands)
	def := make([][]bool, nb)   // defined in block
	phiUse := make([][]int, nb) // for block b: registers used by phis in successors along edge b->succ
	for _, b := range fn.Blocks {
		use[b.Index] = make([]bool, n)
		def[b.Index] = make([]bool, n)
	}
	var ops []*ssa.Value
	for _, b := range fn.Blocks {
		bi := b.Index
		for _, ins := range b.Instrs {
			if phi, ok := ins.(*ssa.Phi); ok {
				for i, e := range phi.Edges {
					if r, ok := fi.regOf[e]; ok {
						p := b.Preds[i].Index
						phiUse[p] = append(phiUse[p], r)
					}
				}
				def[bi][fi.regOf[phi]] = true
				continue
			}
			ops = ins.Operands(ops[:0])
			for _, op := range ops {
				if *op == nil {
					continue
				}
				if r, ok := fi.regOf[*op]; ok && !def[bi][r] {
					use[bi][r] = true
				}
			}
			if v, ok := ins.(ssa.Value); ok {
				def[bi][fi.regOf[v]] = true
			}
		}
	}
	liveIn := make([][]bool, nb)
	liveOut := make([][]bool, nb)
	for i := 0; i < nb; i++ {
		liveIn[i] = make([]bool, n)
		liveOut[i] = make([]bool, n)
	}
	changed := true
	for changed {
		changed = false
		for bi := nb - 1; bi >= 0; bi-- {
			b := fn.Blocks[bi]
			out := liveOut[bi]
			for _, s := range b.Succs {
				for r, l := range liveIn[s.Index] {
					if l && !out[r] {
						// phis defined in s are not live-out of b via liveIn
						out[r] = true
						changed = true
					}
				}
			}
			for _, r := range phiUse[bi] {
				if !out[r] {
					out[r] = true
					changed = true
				}
			}
			in := liveIn[bi]
			for r := 0; r < n; r++ {
				v := use[bi][r] || (out[r] && !def[bi][r])
				if v && !in[r] {
					in[r] = true
					changed = true
				}
			}
		}
	}
	// phis of a block are evaluated on the edge, so they are live at entry
	fi.liveIn = make([][]bool, nb)
	fi.liveAll = make([][]bool, nb)
	for _, b := range fn.Blocks {
		bi := b.Index
		li := append([]bool(nil), liveIn[bi]...)
		for _, ins := range b.Instrs {
			if phi, ok := ins.(*ssa.Phi); ok {
				li[fi.regOf[phi]] = true
			} else {
				break
			}
		}
		fi.liveIn[bi] = li
		la := append([]bool(nil), li...)
		for r := 0; r < n; r++ {
			if def[bi][r] || liveOut[bi][r] {
				la[r] = true
			}
		}
		fi.liveAll[bi] = la
	}
}

// loopChain returns the loops enclosing block b, outermost first.
func (fi *fnInfo) loopChain(b *ssa.BasicBlock) []*loopInfo {
	if fi.chains == nil {
		fi.chains = make([][]*loopInfo, len(fi.fn.Blocks))
		fi.chainOK = make([]bool, len(fi.fn.Blocks))
	}
	if fi.chainOK[b.Index] {
		return fi.chains[b.Index]
	}
	c := fi.loopChain0(b)
	fi.chains[b.Index], fi.chainOK[b.Index] = c, true
	return c
}

func (fi *fnInfo) loopChain0(b *ssa.BasicBlock) []*loopInfo {
	l := fi.loopOf[b.Index]
	if l == nil {
		return nil
	}
	chain := make([]*loopInfo, l.depth)
	for p := l; p != nil; p = p.parent {
		chain[p.depth-1] = p
	}
	return chain
}
