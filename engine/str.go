package main

// Symbolic strings: concrete maximum length, symbolic length and bytes.

import "fmt"

type Str struct {
	isC bool
	c   string
	n   *Term   // length, 64-bit
	b   []*Term // bytes (8-bit); entries at index >= n are don't-care
	// choice form: value is opts[sel]; n/b are filled as well
	sel  *Term
	opts []string
}

func strConst(s string) *Str { return &Str{isC: true, c: s} }

var emptyStr = strConst("")

func (s *Str) norm() *Str {
	// collapse to constant if everything is constant
	if s.isC {
		return s
	}
	if s.n.op != OpConst {
		return s
	}
	k := int(s.n.val)
	buf := make([]byte, k)
	for i := 0; i < k; i++ {
		if s.b[i].op != OpConst {
			if len(s.b) != k {
				return &Str{n: s.n, b: s.b[:k]}
			}
			return s
		}
		buf[i] = byte(s.b[i].val)
	}
	return strConst(string(buf))
}

func (s *Str) Len() *Term {
	if s.isC {
		return BV(uint64(len(s.c)), 64)
	}
	return s.n
}

func (s *Str) Max() int {
	if s.isC {
		return len(s.c)
	}
	return len(s.b)
}

func (s *Str) At(i int) *Term {
	if s.isC {
		if i < len(s.c) {
			return BV(uint64(s.c[i]), 8)
		}
		return BV(0, 8)
	}
	if i < len(s.b) {
		return s.b[i]
	}
	return BV(0, 8)
}

func (s *Str) bytesSlice() []*Term {
	if !s.isC {
		return s.b
	}
	r := make([]*Term, len(s.c))
	for i := 0; i < len(s.c); i++ {
		r[i] = BV(uint64(s.c[i]), 8)
	}
	return r
}

// Select returns s[idx] for a symbolic 64-bit index (no bounds check here).
func (s *Str) Select(idx *Term) *Term {
	if idx.op == OpConst {
		return s.At(int(idx.val))
	}
	if idx.leaves > 0 {
		return lift1(idx, func(k *Term) *Term {
			if k.val < uint64(s.Max()) {
				return s.At(int(k.val))
			}
			return BV(0, 8)
		})
	}
	lo, hi := idx.lo, idx.hi
	if hi >= uint64(s.Max()) {
		hi = uint64(s.Max()) - 1
	}
	if s.Max() == 0 || lo > hi {
		return BV(0, 8)
	}
	r := s.At(int(hi))
	for k := int(hi) - 1; k >= int(lo); k-- {
		r = Ite(Eq(idx, BV(uint64(k), 64)), s.At(k), r)
	}
	return r
}

func strFromBytes(n *Term, b []*Term) *Str {
	return (&Str{n: n, b: b}).norm()
}

func symStr(name string, n int) *Str {
	b := make([]*Term, n)
	for i := range b {
		b[i] = NewVar(fmt.Sprintf("%s[%d]", name, i), 8)
	}
	return strFromBytes(BV(uint64(n), 64), b)
}

func strChoice(sel *Term, opts []string) *Str {
	if sel.op == OpConst {
		return strConst(opts[sel.val])
	}
	max := 0
	for _, o := range opts {
		if len(o) > max {
			max = len(o)
		}
	}
	w := sel.w
	pick := func(f func(o string) *Term) *Term {
		r := f(opts[len(opts)-1])
		for k := len(opts) - 2; k >= 0; k-- {
			r = Ite(Eq(sel, BV(uint64(k), w)), f(opts[k]), r)
		}
		return r
	}
	s := &Str{sel: sel, opts: opts}
	s.n = pick(func(o string) *Term { return BV(uint64(len(o)), 64) })
	s.b = make([]*Term, max)
	for i := 0; i < max; i++ {
		i := i
		s.b[i] = pick(func(o string) *Term {
			if i < len(o) {
				return BV(uint64(o[i]), 8)
			}
			return BV(0, 8)
		})
	}
	return s
}

// Slice returns s[lo:hi] (bounds are checked by the caller).
func (s *Str) Slice(lo, hi *Term) *Str {
	if s.isC && lo.op == OpConst && hi.op == OpConst {
		return strConst(s.c[lo.val:hi.val])
	}
	n := Sub(hi, lo)
	if lo.op == OpConst {
		l := int(lo.val)
		mx := s.Max() - l
		if hi.hi < uint64(s.Max()) {
			mx = int(hi.hi) - l
		}
		if mx < 0 {
			mx = 0
		}
		bs := s.bytesSlice()
		return strFromBytes(n, bs[l:l+mx])
	}
	mx := s.Max() - int(lo.lo)
	if hi.hi >= lo.lo && int(hi.hi-lo.lo) < mx {
		mx = int(hi.hi - lo.lo)
	}
	if mx < 0 {
		mx = 0
	}
	b := make([]*Term, mx)
	for i := 0; i < mx; i++ {
		b[i] = s.Select(Add(lo, BV(uint64(i), 64)))
	}
	return strFromBytes(n, b)
}

func strConcat(a, b *Str) *Str {
	if a.isC && b.isC {
		return strConst(a.c + b.c)
	}
	if a.isC && len(a.c) == 0 {
		return b
	}
	if b.isC && len(b.c) == 0 {
		return a
	}
	an := a.Len()
	if an.op == OpConst {
		k := int(an.val)
		bs := append(append([]*Term{}, a.bytesSlice()[:k]...), b.bytesSlice()...)
		return strFromBytes(Add(BV(uint64(k), 64), b.Len()), bs)
	}
	mx := a.Max() + b.Max()
	if h := an.hi + b.Len().hi; h >= an.hi && h < uint64(mx) {
		mx = int(h)
	}
	bs := make([]*Term, mx)
	for i := 0; i < mx; i++ {
		iT := BV(uint64(i), 64)
		fromB := b.Select(Sub(iT, an))
		if i < a.Max() {
			bs[i] = Ite(Ult(iT, an), a.At(i), fromB)
		} else {
			bs[i] = fromB
		}
	}
	return strFromBytes(Add(an, b.Len()), bs)
}

func strAppendByte(a *Str, c *Term) *Str {
	return strConcat(a, strFromBytes(BV(1, 64), []*Term{c}))
}

func strEq(a, b *Str) *Term {
	if a.isC && b.isC {
		return Bool(a.c == b.c)
	}
	if a.sel != nil && b.isC {
		r := FF
		for k, o := range a.opts {
			if o == b.c {
				r = Or(r, Eq(a.sel, BV(uint64(k), a.sel.w)))
			}
		}
		return r
	}
	if b.sel != nil && a.isC {
		return strEq(b, a)
	}
	if a.sel != nil && b.sel != nil {
		if a.sel == b.sel && sameOpts(a.opts, b.opts) {
			return TT
		}
		r := FF
		for i, x := range a.opts {
			for j, y := range b.opts {
				if x == y {
					r = Or(r, And(Eq(a.sel, BV(uint64(i), a.sel.w)), Eq(b.sel, BV(uint64(j), b.sel.w))))
				}
			}
		}
		return r
	}
	r := Eq(a.Len(), b.Len())
	if r == FF {
		return FF
	}
	m := a.Max()
	if b.Max() < m {
		m = b.Max()
	}
	for i := 0; i < m; i++ {
		r = And(r, Or(Ule(a.Len(), BV(uint64(i), 64)), Eq(a.At(i), b.At(i))))
		if r == FF {
			return FF
		}
	}
	return r
}

func sameOpts(a, b []string) bool {
	if len(a) != len(b) {
		return false
	}
	for i := range a {
		if a[i] != b[i] {
			return false
		}
	}
	return true
}

// strLess is lexicographic a < b.
func strLess(a, b *Str) *Term {
	if a.isC && b.isC {
		return Bool(a.c < b.c)
	}
	m := a.Max()
	if b.Max() < m {
		m = b.Max()
	}
	// from the back: less_i = (i>=len a ∧ i<len b) ∨ (i<len a ∧ i<len b ∧ (a_i<b_i ∨ (a_i=b_i ∧ less_{i+1})))
	mT := BV(uint64(m), 64)
	var r *Term
	if b.Max() <= m {
		r = FF
	} else {
		r = Ult(mT, b.Len())
	}
	for i := m - 1; i >= 0; i-- {
		iT := BV(uint64(i), 64)
		inA, inB := Ult(iT, a.Len()), Ult(iT, b.Len())
		r = Or(And(Not(inA), inB), And(And(inA, inB), Or(Ult(a.At(i), b.At(i)), And(Eq(a.At(i), b.At(i)), r))))
	}
	return r
}

func strIte(g *Term, a, b *Str) *Str {
	if g == TT {
		return a
	}
	if g == FF {
		return b
	}
	if a == b {
		return a
	}
	if a.isC && b.isC && a.c == b.c {
		return a
	}
	if a.sel != nil && b.sel != nil && a.sel == b.sel && sameOpts(a.opts, b.opts) {
		return a
	}
	m := a.Max()
	if b.Max() > m {
		m = b.Max()
	}
	bs := make([]*Term, m)
	for i := 0; i < m; i++ {
		switch {
		case i >= a.Max():
			bs[i] = b.At(i)
		case i >= b.Max():
			bs[i] = a.At(i)
		default:
			bs[i] = Ite(g, a.At(i), b.At(i))
		}
	}
	return strFromBytes(Ite(g, a.Len(), b.Len()), bs)
}

func (s *Str) String() string {
	if s.isC {
		return fmt.Sprintf("%q", s.c)
	}
	if s.sel != nil {
		return fmt.Sprintf("choice(%s,%q)", s.sel, s.opts)
	}
	return fmt.Sprintf("sym(len=%s,max=%d)", s.n, len(s.b))
}

// concretize evaluates the string under a model.
func (s *Str) eval(model map[string]uint64, memo map[*Term]uint64) string {
	if s.isC {
		return s.c
	}
	n := int(evalTerm(s.n, model, memo))
	if n > len(s.b) {
		n = len(s.b)
	}
	buf := make([]byte, n)
	for i := 0; i < n; i++ {
		buf[i] = byte(evalTerm(s.b[i], model, memo))
	}
	return string(buf)
}
