package main

import (
	"go/types"

	"golang.org/x/tools/go/ssa"
)

// symParseIntTerms: strconv.ParseInt / ParseUint of a short symbolic string in
// base 10 or 16: (syntactically valid, value). Short enough that no range error
// can arise (checked by the caller). Self-tested against strconv.
func symParseIntTerms(s *Str, base int, signedForm bool) (valid, value *Term) {
	n := s.Len()
	mx := s.Max()
	isDigit := func(b *Term) (*Term, *Term) { // (is a digit of the base, its value as 64 bits)
		dec := And(Ule(BV('0', 8), b), Ule(b, BV('9', 8)))
		val := ZExt(Sub(b, BV('0', 8)), 64)
		if base == 16 {
			lo := And(Ule(BV('a', 8), b), Ule(b, BV('f', 8)))
			up := And(Ule(BV('A', 8), b), Ule(b, BV('F', 8)))
			val = Ite(dec, val, Ite(lo, ZExt(Sub(b, BV('a'-10, 8)), 64), ZExt(Sub(b, BV('A'-10, 8)), 64)))
			return Or(dec, Or(lo, up)), val
		}
		return dec, val
	}
	sign := FF
	neg := FF
	if signedForm && mx > 0 {
		neg = And(Ult(i64(0), n), Eq(s.At(0), BV('-', 8)))
		sign = Or(neg, And(Ult(i64(0), n), Eq(s.At(0), BV('+', 8))))
	}
	first := Ite(sign, i64(1), i64(0))
	valid = Ult(first, n) // at least one digit
	acc := BV(0, 64)
	for i := 0; i < mx; i++ {
		active := And(Ule(first, i64(i)), Ult(i64(i), n))
		d, v := isDigit(s.At(i))
		valid = And(valid, Or(Not(active), d))
		acc = Ite(active, Add(Mul(acc, BV(uint64(base), 64)), v), acc)
	}
	value = Ite(neg, Neg(acc), acc)
	return valid, value
}

func (e *Engine) symParseInt(name string, s *Str, args []Value, st *State, site ssa.Instruction) ([]Outcome, bool) {
	b, ok1 := cint(args[1])
	bits, ok2 := cint(args[2])
	if !ok1 || !ok2 || (b != 10 && b != 16) {
		return nil, false
	}
	if bits == 0 {
		bits = 64
	}
	// no range error possible: base^len < 2^(bits-1)
	limit := map[int64]int{10: 9, 16: 7}[b]
	if bits < 32 || s.Max() > limit {
		return nil, false
	}
	valid, value := symParseIntTerms(s, int(b), name == "strconv.ParseInt")
	var outs []Outcome
	if valid != FF {
		ns := st.Fork()
		ns.Assume(valid)
		if e.solver.Check(ns.pc) != ResUnsat {
			outs = append(outs, Outcome{st: ns, ret: TupleV{value, IfaceV{}}})
		}
	}
	if valid != TT {
		ns := st.Fork()
		ns.Assume(Not(valid))
		if e.solver.Check(ns.pc) != ResUnsat {
			pkg := e.prog.ImportedPackage("strconv")
			t := pkg.Type("NumError").Type()
			inner := e.load(ns, Ptr{obj: e.globalObj(pkg.Var("ErrSyntax")), path: []int{0}})
			fname := "ParseInt"
			if name == "strconv.ParseUint" {
				fname = "ParseUint"
			}
			o := ns.alloc(site, 8, []Value{&StructV{[]Value{strConst(fname), s, inner}}}, t)
			outs = append(outs, Outcome{st: ns, ret: TupleV{BV(0, 64), IfaceV{types.NewPointer(t), Ptr{obj: o.id, path: []int{0}}}}})
		}
	}
	return outs, true
}
