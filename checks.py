"""Registry of checks: which harness runs, with which case splits, serve which property."""


def lex_cases(maxn_quick, maxn_thorough, extra=None):
    def f(tier, seed):
        maxn = maxn_quick if tier == "quick" else maxn_thorough
        cs = []
        for n in range(0, maxn + 1):
            c = {"n": n, "p": 0, "r0": 7, "l0": 3, "ls0": 2}
            if n >= maxn_quick and tier == "thorough" and n > maxn_quick + 1:
                c["_optional"] = 1
            cs.append(c)
        # resting state at the very beginning of a source, and a cursor in the middle
        cs.append({"n": min(3, maxn), "p": 0, "r0": 0, "l0": 1, "ls0": 0})
        cs.append({"n": min(4, maxn), "p": 2, "r0": 2 + (seed % 5), "l0": 1 + (seed % 7), "ls0": seed % 3})
        return cs
    return f


LEX_ASSUME = [
    "one ReadToken call from a resting lexer state (byte cursor p, arbitrary bytes after it); sequences of calls follow by induction over the asserted post-state (cursor in bounds, counters consistent, never between CR and LF)",
    "character/line counters at rest are concrete per case (the lexer only adds to and subtracts from them): (7,3,2), (0,1,0) and one seed-dependent triple",
    "models: fmt.Sprintf/Errorf (literal parts verbatim, %s/%d spliced, other values opaque), bytes.Buffer as an appendable string, strings.Split/Join, unicode/utf8.DecodeRuneInString (engine formula, differentially tested against the library at setup)",
    "lexer fields are set/read by name through verifrt.Poke/Peek (reflection natively)",
]

NQ_PREFIX = 12   # len(hparse.QueryPrefixes)
NS_PREFIX = 20   # len(hparse.SchemaPrefixes)
NQ_ALPHA = 32    # len(Alphabet(QueryNames, false))
NS_ALPHA = 41


def stream_cases(nprefix, nalpha, kq, kpq, kt, kpt, extra=None):
    """prefix 0 (free streams) up to k tokens; every other prefix with kp symbolic tokens.
    The largest free-stream length is split by its first token."""
    def f(tier, seed):
        k, kp = (kq, kpq) if tier == "quick" else (kt, kpt)
        cs = []
        for i in range(0, k):
            cs.append(dict({"k": i, "prefix": 0}, **(extra or {})))
        for first in range(nalpha + (1 if (extra or {}).get("invalid") else 0)):
            cs.append(dict({"k": k, "prefix": 0, "first": first}, **(extra or {})))
        for p in range(1, nprefix):
            cs.append(dict({"k": kp, "prefix": p}, **(extra or {})))
        return cs
    return f


PARSE_ASSUME = [
    "the lexer is replaced by a stub that hands the parser a stream of symbolic tokens (kind and value drawn from the grammar's alphabet: every punctuator, the keywords, two ordinary names, string/block-string/int/float/comment tokens); its contract (Invalid <=> error, positions set) is what the lexer checks establish",
    "each case is one symbolic run over all streams of that shape; branch feasibility on a single token selector is decided by exhaustive evaluation over its <= 64 values inside the engine, everything else by z3",
    "natively (replay) the stream is rendered to text and lexed by the real lexer",
    "lexer.Type.String/Name are evaluated once per possible kind instead of being forked inside",
]

CHECKS = {
    "C01": {
        "units": [
            {"pkg": "verifh/hlex", "fn": "StepTotal", "cases": lex_cases(5, 8), "panic_prop": "C01"},
            {"pkg": "verifh/hparse", "fn": "QueryTotal", "cases": stream_cases(NQ_PREFIX, NQ_ALPHA, 3, 2, 5, 4, {"invalid": 1}), "panic_prop": "C01"},
            {"pkg": "verifh/hparse", "fn": "SchemaTotal", "cases": stream_cases(NS_PREFIX, NS_ALPHA, 3, 2, 4, 3, {"invalid": 1}), "panic_prop": "C01"},
        ],
        "covers": ["C01.error", "C01.eof", "C01.token", "C01.parsed", "C01.syntax-error"],
        "bounds": {"quick": "lexer: every byte string of length <= 5 after the cursor (all 256 byte values, valid UTF-8 or not), one ReadToken step; loops unwound n+3 times with unwinding assertions",
                   "thorough": "lexer: every byte string of length <= 8 after the cursor"},
        "outside": "inputs longer than the bound after the cursor; wall-clock and stack size on large inputs",
        "assumptions": LEX_ASSUME,
    },
    "C05": {
        "units": [{"pkg": "verifh/hparse", "fn": "QueryRef", "cases": stream_cases(NQ_PREFIX, NQ_ALPHA, 4, 3, 6, 5), "panic_prop": "C05"}],
        "covers": ["C05.accepted", "C05.rejected"],
        "bounds": {"quick": "every stream of <= 4 tokens over the 32-symbol executable alphabet, and 3 arbitrary tokens after each of 11 concrete openings (variable definitions, arguments, directives, list/object values, fragments, nested selections)",
                   "thorough": "<= 6 free tokens; 5 after each opening"},
        "outside": "longer streams; that rendered text lexes back to the intended tokens is checked natively at replay only",
        "assumptions": PARSE_ASSUME + ["reference recogniser hparse.RefQuery written from section 2 of the specification; validated natively against parser/query_test.yml at setup"],
    },
    "C06": {
        "units": [{"pkg": "verifh/hparse", "fn": "SchemaRef", "cases": stream_cases(NS_PREFIX, NS_ALPHA, 3, 3, 5, 4), "panic_prop": "C06"}],
        "covers": ["C06.accepted", "C06.rejected"],
        "bounds": {"quick": "every stream of <= 3 tokens over the 41-symbol type-system alphabet, and 3 arbitrary tokens after each of 19 concrete openings",
                   "thorough": "<= 5 free tokens; 4 after each opening"},
        "outside": "longer streams",
        "assumptions": PARSE_ASSUME + ["reference recogniser hparse.RefSchema written from section 3; validated natively against parser/schema_test.yml and the prelude at setup"],
    },
    "C16": {
        "units": [{"pkg": "verifh/hparse", "fn": "QueryLimit", "cases": stream_cases(NQ_PREFIX, NQ_ALPHA, 3, 2, 5, 4), "panic_prop": "C16"},
                  {"pkg": "verifh/hparse", "fn": "SchemaLimit", "cases": stream_cases(NS_PREFIX, NS_ALPHA, 3, 2, 4, 3), "panic_prop": "C16"}],
        "covers": ["C16.both-parse", "C16.over-limit"],
        "bounds": {"quick": "streams as for C05/C06 with <= 3 free tokens (2 after an opening), every limit 0..tokens+2, all four limited entry points reached through ParseQueryWithTokenLimit / ParseSchemaWithLimit",
                   "thorough": "<= 5 / 4 free tokens"},
        "outside": "wall time and memory on multi-megabyte inputs; 'work bounded by the limit' is decided as: the result does not depend on anything after the first limit+2 tokens",
        "assumptions": PARSE_ASSUME,
    },
    "C03": {
        "units": [
            {"pkg": "verifh/hlex", "fn": "StepRef", "cases": lex_cases(5, 7), "panic_prop": "C03"},
        ],
        "covers": ["C03.error", "C03.name", "C03.number", "C03.comment", "C03.eof", "C03.string"],
        "bounds": {"quick": "every well-formed UTF-8 string of <= 5 bytes after the cursor, one token, against the reference lexer (kind, extent in characters, value, failure)",
                   "thorough": "<= 7 bytes"},
        "outside": "longer inputs; ill-formed UTF-8 (covered for totality only, C01)",
        "assumptions": LEX_ASSUME + ["reference lexer hlex.RefNext written from section 2.1 of the October 2021 text; validated natively against lexer_test.yml at setup"],
    },
    "C04": {
        "units": [
            {"pkg": "verifh/hlex", "fn": "StepRef", "cases": lex_cases(5, 7), "panic_prop": None},
            {"pkg": "verifh/hlex", "fn": "StepTotal", "cases": lex_cases(4, 6), "panic_prop": None},
        ],
        "covers": [],
        "bounds": {"quick": "token positions: <= 5 bytes after the cursor, relative to arbitrary resting counters",
                   "thorough": "<= 7 bytes"},
        "outside": "that a node's position is its first token; inputs beyond the bounds",
        "assumptions": LEX_ASSUME,
    },
}
NOT_APPLICABLE = {}
