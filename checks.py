"""Registry of checks: which harness runs, with which case splits, serve which property."""


def lex_cases(maxn_quick, maxn_thorough, extra=None):
    def f(tier, seed):
        maxn = maxn_quick if tier == "quick" else maxn_thorough
        cs = []
        for n in range(0, maxn + 1):
            c = {"n": n, "p": 0, "r0": 7, "l0": 3, "ls0": 2}
            if n >= maxn_quick and tier == "thorough" and n > maxn_quick + 1:
                c["_optional"] = 1
            cs.append(c)
        # resting state at the very beginning of a source, and a cursor in the middle
        cs.append({"n": min(3, maxn), "p": 0, "r0": 0, "l0": 1, "ls0": 0})
        cs.append({"n": min(4, maxn), "p": 2, "r0": 2 + (seed % 5), "l0": 1 + (seed % 7), "ls0": seed % 3})
        return cs
    return f


LEX_ASSUME = [
    "one ReadToken call from a resting lexer state (byte cursor p, arbitrary bytes after it); sequences of calls follow by induction over the asserted post-state (cursor in bounds, counters consistent, never between CR and LF)",
    "character/line counters at rest are concrete per case (the lexer only adds to and subtracts from them): (7,3,2), (0,1,0) and one seed-dependent triple",
    "models: fmt.Sprintf/Errorf (literal parts verbatim, %s/%d spliced, other values opaque), bytes.Buffer as an appendable string, strings.Split/Join, unicode/utf8.DecodeRuneInString (engine formula, differentially tested against the library at setup)",
    "lexer fields are set/read by name through verifrt.Poke/Peek (reflection natively)",
]

CHECKS = {
    "C01": {
        "units": [
            {"pkg": "verifh/hlex", "fn": "StepTotal", "cases": lex_cases(5, 8), "panic_prop": "C01"},
        ],
        "covers": ["C01.error", "C01.eof", "C01.token"],
        "bounds": {"quick": "lexer: every byte string of length <= 5 after the cursor (all 256 byte values, valid UTF-8 or not), one ReadToken step; loops unwound n+3 times with unwinding assertions",
                   "thorough": "lexer: every byte string of length <= 8 after the cursor"},
        "outside": "inputs longer than the bound after the cursor; wall-clock and stack size on large inputs",
        "assumptions": LEX_ASSUME,
    },
    "C03": {
        "units": [
            {"pkg": "verifh/hlex", "fn": "StepRef", "cases": lex_cases(5, 7), "panic_prop": "C03"},
        ],
        "covers": ["C03.error", "C03.name", "C03.number", "C03.comment", "C03.eof", "C03.string"],
        "bounds": {"quick": "every well-formed UTF-8 string of <= 5 bytes after the cursor, one token, against the reference lexer (kind, extent in characters, value, failure)",
                   "thorough": "<= 7 bytes"},
        "outside": "longer inputs; ill-formed UTF-8 (covered for totality only, C01)",
        "assumptions": LEX_ASSUME + ["reference lexer hlex.RefNext written from section 2.1 of the October 2021 text; validated natively against lexer_test.yml at setup"],
    },
    "C04": {
        "units": [
            {"pkg": "verifh/hlex", "fn": "StepRef", "cases": lex_cases(5, 7), "panic_prop": None},
            {"pkg": "verifh/hlex", "fn": "StepTotal", "cases": lex_cases(4, 6), "panic_prop": None},
        ],
        "covers": [],
        "bounds": {"quick": "token positions: <= 5 bytes after the cursor, relative to arbitrary resting counters",
                   "thorough": "<= 7 bytes"},
        "outside": "that a node's position is its first token; inputs beyond the bounds",
        "assumptions": LEX_ASSUME,
    },
}
NOT_APPLICABLE = {}
