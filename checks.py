"""Registry of checks: which harness runs, with which case splits, serve which property."""


CHEAP_OPENINGS = (2, 3, 4, 5, 6, 7, 8, 9, 11, 12, 13)   # strings, escapes, comments, numbers, CR, partial BOM, dots
BLOCK_OPENINGS = (1, 10, 14, 15)                          # inside a block string (expensive: the line split forks)


def lex_cases(maxn_quick, maxn_thorough, openings=True, cheap_top=(4, 5)):
    """Plain inputs of n symbolic bytes after the cursor (sizes measured to finish), three
    resting states, and - hlex.Openings - concrete openings followed by a few symbolic bytes."""
    def f(tier, seed):
        maxn = maxn_quick if tier == "quick" else maxn_thorough
        base = {"p": 0, "r0": 7, "l0": 3, "ls0": 2}
        cs = [dict(base, n=n) for n in range(0, maxn + 1)]
        # resting state at the very beginning of a source, and a cursor in the middle
        cs.append({"n": min(3, maxn), "p": 0, "r0": 0, "l0": 1, "ls0": 0})
        cs.append({"n": min(4, maxn), "p": 2, "r0": 2 + (seed % 5), "l0": 1 + (seed % 7), "ls0": seed % 3})
        if not openings:
            return cs
        for o in CHEAP_OPENINGS:
            top = cheap_top[0] if tier == "quick" else cheap_top[1]
            if o == 12 and cheap_top == (4, 5):
                top = 4        # inside a byte order mark: 5 bytes after it do not finish in 900 s (reference lexer unit)
            elif cheap_top == (4, 5) and tier == "quick" and o != 11:
                top = 5        # 1-6 s each with the reference lexer (after a carriage return: 56 s, stays at 4)
            for n in range(0, top + 1):
                cs.append(dict(base, n=n, open=o))
        for o in BLOCK_OPENINGS:
            top = 3
            if tier == "thorough" or o in (1, 15):
                top = 4            # ~1-2 min each; quick takes the plain block string and the after-CR state
            for n in range(0, top + 1):
                cs.append(dict(base, n=n, open=o))
            # the same opening at the very beginning of a source (as many bytes as characters before the
            # cursor: the other resting states have more characters than bytes, which no run reaches, and
            # hide a byte offset used as a character count)
            cs.append({"n": top, "open": o, "p": 0, "r0": 0, "l0": 1, "ls0": 0})
        return cs
    return f


LEX_ASSUME = [
    "one ReadToken call from a resting lexer state (byte cursor p, arbitrary bytes after it); sequences of calls follow by induction over the asserted post-state (cursor in bounds, counters consistent, never between CR and LF)",
    "character/line counters at rest are concrete per case (the lexer only adds to and subtracts from them): (7,3,2), (0,1,0) and one seed-dependent triple",
    "models: fmt.Sprintf/Errorf (literal parts verbatim, %s/%d spliced, other values opaque), bytes.Buffer as an appendable string, strings.Split/Join, unicode/utf8.DecodeRuneInString (engine formula, differentially tested against the library at setup)",
    "lexer fields are set/read by name through verifrt.Poke/Peek (reflection natively)",
]

NQ_PREFIX = 12   # len(hparse.QueryPrefixes)
NS_PREFIX = 20   # len(hparse.SchemaPrefixes)
NQ_ALPHA = 32    # len(Alphabet(QueryNames, false))
NS_ALPHA = 41
NQ_HOLES = 13    # len(hparse.QueryHoles)
NS_HOLES = 25    # len(hparse.SchemaHoles)
NQ_DOCS = 17     # len(hparse.QuerySeedDocs())
NS_DOCS = 35     # len(hparse.SchemaSeedDocs())


def stream_cases(nprefix, nalpha, kq, kpq, kt, kpt, extra=None, nholes=0, ndocs=0, doc_k=(1, 2)):
    """prefix 0 (free streams) up to k tokens; every other prefix with kp symbolic tokens.
    The largest free-stream length is split by its first token. nholes: (opening, closing)
    templates around a hole of 1..3 symbolic tokens. ndocs: complete seed documents with
    1..2 (thorough: ..3) symbolic tokens inserted at every position (case split inside the run)."""
    def f(tier, seed):
        k, kp = (kq, kpq) if tier == "quick" else (kt, kpt)
        cs = []
        for h in range(nholes):
            for hk in (1, 2, 3):
                cs.append(dict({"k": hk, "hole": h}, **(extra or {})))
        for d in range(ndocs):
            for dk in (doc_k if tier == "quick" else tuple(doc_k) + (3,)):
                cs.append(dict({"k": dk, "doc": d}, **(extra or {})))
        for i in range(0, k):
            cs.append(dict({"k": i, "prefix": 0}, **(extra or {})))
        for first in range(nalpha + (1 if (extra or {}).get("invalid") else 0)):
            cs.append(dict({"k": k, "prefix": 0, "first": first}, **(extra or {})))
        for p in range(1, nprefix):
            cs.append(dict({"k": kp, "prefix": p}, **(extra or {})))
        return cs
    return f


PARSE_ASSUME = [
    "the lexer is replaced by a stub that hands the parser a stream of symbolic tokens (kind and value drawn from the grammar's alphabet: every punctuator, the keywords, two ordinary names, string/block-string/int/float/comment tokens); its contract (Invalid <=> error, positions set) is what the lexer checks establish",
    "each case is one symbolic run over all streams of that shape; branch feasibility on a single token selector is decided by exhaustive evaluation over its <= 64 values inside the engine, everything else by z3",
    "natively (replay) the stream is rendered to text and lexed by the real lexer",
    "lexer.Type.String/Name are evaluated once per possible kind instead of being forked inside",
]

def roundtrip_cases(ndocs, nholes, fq, ft, f2q, nextra=0, xk1=()):
    """hfmt.QueryRoundTrip / SchemaRoundTrip: every seed document of the parser checks with k arbitrary
    tokens inserted at every position, and every hole template, under formatter configurations fopt
    (bit 0 comments, 1 compacted, 2-3 indent, 4 descriptions off, 5 built-ins on)."""
    def f(tier, seed):
        cs = []
        for d in range(ndocs):
            for fo in (fq if tier == "quick" else ft):
                cs.append({"k": 1, "doc": d, "fopt": fo})
            for fo in (f2q if tier == "quick" else ft):
                cs.append({"k": 2, "doc": d, "fopt": fo})
            # 3 inserted tokens: 270 s for the smallest executable seed document, not finished in 600 s for a
            # type-system one - not registered
        for h in range(nholes):
            for hk in ((1, 2) if tier == "quick" else (1, 2, 3)):
                cs.append({"k": hk, "hole": h, "fopt": fq[(h + hk) % len(fq)]})
        # documents written for the printer (hfmt.ExtraQueryDocs / ExtraSchemaDocs): as they are under every
        # configuration of the thorough list, and (thorough tier, shorter documents) with one token inserted anywhere
        for x in range(nextra):
            for fo in ft:
                cs.append({"k": 0, "xdoc": x, "fopt": fo})
            if tier == "thorough" and x in xk1:      # one token inserted anywhere: the shorter ones only (100-400 s each otherwise)
                for fo in fq[:3]:
                    cs.append({"k": 1, "xdoc": x, "fopt": fo})
        return cs
    return f


def validate_cases(tier, seed):
    """Document shapes of hval.Shapes, split on pinned structural alternatives so every piece
    is a run that has been measured to finish (timings in DESIGN.md)."""
    cs = []
    for a3 in range(5):                      # 0: one argument with any literal, by kind of value
        cs.append({"shape": 0, "alt3": a3})
    for a1 in range(5):                      # 1: variable definition (type shape x default) and use
        for a3 in range(4):
            cs.append({"shape": 1, "alt1": a1, "alt3": a3})
    for top in range(3):                     # 2: fragments / spreads / type conditions
        for inline in range(2):
            for asp in range(2):
                for f2, bsp in ((0, 0), (1, 0), (1, 1)):
                    heavy = inline == 1 and asp == 1 and f2 == 1 and bsp == 1
                    if heavy and tier == "quick":
                        continue             # ~170 s each: thorough tier only
                    cs.append({"shape": 2, "top": top, "inline": inline, "aspread": asp, "frag2": f2, "bspread": bsp})
    for sh in (3, 4, 5, 6, 8, 9):            # merging, same-named arguments, directives, introspection depth, nesting
        cs.append({"shape": sh})
    for a1 in range(4):                      # 7: operations, by kind of the first one
        cs.append({"shape": 7, "alt1": a1})
    cs.append({"shape": 10})                 # misspelt names with tied suggestion candidates
    cs.append({"shape": 11})                 # the same two named fragments meeting twice (exclusive / non-exclusive parents, either order)
    cs.append({"shape": 12})                 # two defined fragments side by side, each may spread a further (defined / undefined / own) fragment
    cs.append({"shape": 13})                 # one argument position used twice (defaulted and plain variable, literal, null, left out)
    cs.append({"shape": 14})                 # a variable used bare / only inside a list or object literal (also nested)
    cs.append({"shape": 16})                 # mutually recursive fragments holding a same-named field with a nested spread
    cs.append({"shape": 17})                 # introspection depth through a fragment spread twice at different depths
    for site in range(5):                    # 15: a variable in a directive argument at each directive location
        cs.append({"shape": 15, "site": site})
    return cs


SCHEMA_SHAPE_PARTS = {0: 1, 1: 1, 2: 1, 3: 5, 4: 4, 5: 3, 6: 5, 7: 1, 8: 1}
# number of top-level definitions of every piece (the harness refuses an order / cut that does not exist)
SCHEMA_SHAPE_DEFS = {(0, None): 5, (1, None): 3, (2, None): 6, (7, None): 8, (8, None): 7,
                     (3, 0): 7, (3, 1): 7, (3, 2): 7, (3, 3): 7, (3, 4): 7,
                     (4, 0): 3, (4, 1): 3, (4, 2): 4, (4, 3): 5,
                     (5, 0): 7, (5, 1): 8, (5, 2): 8,
                     (6, 0): 4, (6, 1): 5, (6, 2): 6, (6, 3): 5, (6, 4): 6}


def schema_load_cases(tier, seed):
    """hval.SchemaShapes split on the pinned part (and the directive use site)."""
    cs = []
    for sh, parts in SCHEMA_SHAPE_PARTS.items():
        if parts == 1:
            if sh == 1:                      # by list / non-null shape of the interface argument's type
                cs += [{"shape": sh, "alt1": a} for a in range(5)]
            else:
                cs.append({"shape": sh})
            continue
        for p in range(parts):
            if sh == 5 and p == 0:           # by use site and by required / optional / defaulted argument of the directive
                for site in range(10):
                    cs += [{"shape": sh, "part": p, "site": site, "alt1": a} for a in range(3)]
            else:
                cs.append({"shape": sh, "part": p})
    return cs


def loaded_schema_cases(tier, seed):
    """hfmt.LoadedSchema: every piece of the C07 type-system shapes; the formatter configuration rotates
    over the pieces in the quick tier, the thorough tier runs each piece under four."""
    cs = []
    for i, c in enumerate(schema_load_cases(tier, seed)):
        if tier == "quick":
            cs.append(dict(c, fopt=(0, 1, 2, 16, 7)[i % 5]))
        else:
            cs += [dict(c, fopt=fo) for fo in (0, 3, 16, 14)]
    return cs


def schema_order_cases(tier, seed):
    """order: 0 reversed, 1..n-1 rotations, n.. transpositions; split: 0 one source, 1 one source per
    definition, 1+c two sources cut after c definitions."""
    cs = []
    for c in schema_load_cases(tier, seed):
        n = SCHEMA_SHAPE_DEFS[(c["shape"], c.get("part"))]
        n_orders = 1 + (n - 1) + n * (n - 1) // 2
        if tier == "quick":
            combos = [(0, 1)]                # reversed, one source per definition
            if c["shape"] in (7, 8):         # extension-only types: also every rotation in one source
                combos += [(o, 0) for o in range(1, n)]
        elif c["shape"] in (7, 8):          # light: every order over one source per definition, every cut of the reversal
            combos = [(o, 1) for o in range(n_orders)] + [(0, 0)] + [(0, 1 + k) for k in range(1, n)] + [(o, 0) for o in range(1, n)]
        else:
            def transposition(a, b):         # index of the order that swaps definitions a < b
                return n + sum(n - 1 - i for i in range(a)) + (b - a - 1)
            mid = n // 2
            combos = [(0, 1), (0, 0), (0, 1 + mid), (1, 1), (1, 0), (n - 1, 1),
                      (transposition(0, 1), 1), (transposition(0, n - 1), 1), (transposition(mid - 1, mid), 1)]
        for o, sp in combos:
            cs.append(dict(c, order=o, split=sp))
    return cs


def argmap_cases(tier, seed):
    """Documents that carry arguments: literals of every kind at every argument of the kitchen-sink field,
    variable definitions (every type shape x default) used bare / in a list / in an object, directives with
    arguments, one position used twice, variables nested in literals."""
    return [c for c in validate_cases(tier, seed) if c["shape"] in (0, 1, 5, 6, 13, 14, 15)]


VAR_ARGS = ["i", "i1", "l", "l1", "ll", "ll1", "lll", "e", "el", "in", "inl", "in1", "s", "fl", "b", "id", "c", "cl"]


def varcoerce_cases(tier, seed):
    """One variable of each of 18 types x the 17 top-level alternatives of the JSON-like value (the
    alternatives below the top are solver variables), plus the variable left out (with / without default)."""
    cs = []
    for a in range(len(VAR_ARGS)):
        for v in range(17):
            cs.append({"arg": a, "val": v})
        cs.append({"arg": a, "supplied": 0})
    cs.append({"arg": 0, "supplied": 0, "default": 1})
    cs.append({"arg": 0, "default": 1, "val": 0})
    cs.append({"arg": 0, "default": 1, "val": 1})
    return cs


def determinism_cases(tier, seed):
    """hval.Deterministic validates every document six times, so the quick tier takes the
    lighter pieces of each shape; thorough takes every piece of validate_cases."""
    if tier == "thorough":
        # every piece of the C08 shapes except five that do not finish in 3000 s with six validations
        # each (measured): the heaviest fragment pieces, three operation-kind pieces, one object-literal piece
        slow = lambda c: ((c["shape"] == 2 and c["inline"] == 1 and c["aspread"] == 1 and c["frag2"] == 1 and c["bspread"] == 1)
                          or (c["shape"] == 7 and c["alt1"] in (1, 2, 3)) or (c["shape"] == 0 and c["alt3"] == 3))
        return [c for c in validate_cases(tier, seed) if not slow(c)]
    cs = [{"shape": 10}, {"shape": 11}, {"shape": 12}, {"shape": 13}, {"shape": 14}, {"shape": 9}, {"shape": 5}, {"shape": 6}, {"shape": 3}, {"shape": 4}]
    for a3 in (0, 2, 4):
        cs.append({"shape": 0, "alt3": a3})
    for a1, a3 in ((0, 0), (1, 1), (2, 2), (3, 3), (4, 0)):
        cs.append({"shape": 1, "alt1": a1, "alt3": a3})
    for top in range(3):
        cs.append({"shape": 2, "top": top, "inline": 0, "aspread": 1, "frag2": 0, "bspread": 0})
        cs.append({"shape": 2, "top": top, "inline": 1, "aspread": 0, "frag2": 1, "bspread": 0})
    cs.append({"shape": 7, "alt1": 0})
    cs += [{"shape": 15, "site": s} for s in range(5)]
    return cs


def compose_cases(tier, seed):
    """hval.Compose validates every document 37 times (default set, explicit full list, each of
    the 27 rules alone, 4 twin pairs): light pieces only."""
    cs = [{"shape": 10}, {"shape": 11}, {"shape": 12}, {"shape": 13}, {"shape": 14}, {"shape": 9}, {"shape": 5}, {"shape": 6}, {"shape": 4}]
    for a3 in (0, 4):
        cs.append({"shape": 0, "alt3": a3})
    for top in range(3):
        cs.append({"shape": 2, "top": top, "inline": 0, "aspread": 1, "frag2": 0, "bspread": 0})
    cs += [{"shape": 15, "site": s} for s in range(5)]
    # the variable-definition shape (about 2,000 paths per piece x 37 validations) does not
    # finish in 600 s and is left out of this check
    if tier == "thorough":
        cs += [{"shape": 3}, {"shape": 0, "alt3": 2}]
        cs += [{"shape": 2, "top": top, "inline": 1, "aspread": 0, "frag2": 1, "bspread": 0} for top in range(3)]
    return cs


VALIDATE_ASSUME = [
    "documents are token streams with symbolic names (choices among existing, non-existing and special names) and a case split over structural alternatives; they are parsed by the real parser (lexer stubbed under the engine, real lexer natively) and validated against a fixed kitchen-sink schema loaded by the real loader",
    "one representative per behaviour in name sets (e.g. Int stands for every non-composite type condition)",
    "branch feasibility on one symbolic name is decided by exhaustive evaluation over its options inside the engine, conditions relating two names by z3",
    "suggestion code (SuggestionList, levenshtein) is run per concrete option of a symbolic name",
    "reference validator hval.RefValid written from section 5 of the specification; agrees with the library's verdict on all 425 imported graphql-js cases (native test at setup)",
]

CHECKS = {
    "C01": {
        "units": [
            {"pkg": "verifh/hlex", "fn": "StepTotal", "cases": lex_cases(5, 7, cheap_top=(5, 6)), "panic_prop": "C01"},
            {"pkg": "verifh/hparse", "fn": "QueryTotal", "cases": stream_cases(NQ_PREFIX, NQ_ALPHA, 3, 2, 5, 4, {"invalid": 1}), "panic_prop": "C01"},
            {"pkg": "verifh/hparse", "fn": "SchemaTotal", "cases": stream_cases(NS_PREFIX, NS_ALPHA, 3, 2, 4, 3, {"invalid": 1}), "panic_prop": "C01"},
        ],
        "covers": ["C01.error", "C01.eof", "C01.token", "C01.parsed", "C01.syntax-error"],
        "bounds": {"quick": "lexer: every byte string of length <= 5 after the cursor (all 256 byte values, valid UTF-8 or not), and <= 4 arbitrary bytes after each of 15 concrete openings (inside strings, escapes, block strings, comments, numbers, after CR, inside a BOM; <= 3 after two of the block-string openings); one ReadToken step; loops unwound with unwinding assertions. Parsers: see C05/C06 bounds with an unlexable token and any token limit",
                   "thorough": "lexer: <= 7 bytes after the cursor; <= 5 after the cheap openings, <= 4 after every block-string opening"},
        "outside": "inputs longer than the bound after the cursor; wall-clock and stack size on large inputs",
        "assumptions": LEX_ASSUME,
    },
    "C05": {
        "units": [{"pkg": "verifh/hparse", "fn": "QueryRef", "cases": stream_cases(NQ_PREFIX, NQ_ALPHA, 4, 3, 6, 5, nholes=NQ_HOLES, ndocs=NQ_DOCS), "panic_prop": "C05"}],
        "covers": ["C05.accepted", "C05.rejected"],
        "bounds": {"quick": "every stream of <= 4 tokens over the 32-symbol executable alphabet; 3 arbitrary tokens after each of 11 concrete openings; 1-3 arbitrary tokens in a hole at each of 13 positions (every value position - the constant ones included - and every name position after a punctuator or keyword) of otherwise complete documents; 1-2 arbitrary tokens inserted at every position of 17 complete documents",
                   "thorough": "<= 6 free tokens; 5 after each opening; 1-3 in each hole; 1-3 inserted at every position"},
        "outside": "longer streams; that rendered text lexes back to the intended tokens is checked natively at replay only",
        "assumptions": PARSE_ASSUME + ["reference recogniser hparse.RefQuery written from section 2 of the specification; validated natively against parser/query_test.yml at setup"],
    },
    "C06": {
        "units": [{"pkg": "verifh/hparse", "fn": "SchemaRef", "cases": stream_cases(NS_PREFIX, NS_ALPHA, 3, 3, 5, 4, nholes=NS_HOLES, ndocs=NS_DOCS), "panic_prop": "C06"}],
        "covers": ["C06.accepted", "C06.rejected"],
        "bounds": {"quick": "every stream of <= 3 tokens over the 41-symbol type-system alphabet; 3 arbitrary tokens after each of 19 concrete openings; 1-3 arbitrary tokens in a hole at each of the 25 positions of the type-system grammar that hold a constant value (every directive-argument value and default value, definitions and extensions) of otherwise complete documents; 1-2 arbitrary tokens inserted at every position of 35 complete documents (every kind of definition and extension)",
                   "thorough": "<= 5 free tokens; 4 after each opening; 1-3 in each hole; 1-3 inserted at every position"},
        "outside": "longer streams",
        "assumptions": PARSE_ASSUME + ["reference recogniser hparse.RefSchema written from section 3; validated natively against parser/schema_test.yml and the prelude at setup"],
    },
    "C16": {
        "units": [{"pkg": "verifh/hparse", "fn": "QueryLimit", "cases": stream_cases(NQ_PREFIX, NQ_ALPHA, 3, 2, 5, 4, nholes=NQ_HOLES, ndocs=NQ_DOCS, doc_k=(1,)), "panic_prop": "C16"},
                  {"pkg": "verifh/hparse", "fn": "SchemaLimit", "cases": stream_cases(NS_PREFIX, NS_ALPHA, 3, 2, 4, 3, nholes=NS_HOLES, ndocs=NS_DOCS, doc_k=(1,)), "panic_prop": "C16"}],
        "covers": ["C16.both-parse", "C16.over-limit"],
        "bounds": {"quick": "streams as for C05/C06 with <= 3 free tokens (2 after an opening), every limit 0..tokens+2, all four limited entry points reached through ParseQueryWithTokenLimit / ParseSchemaWithLimit",
                   "thorough": "<= 5 / 4 free tokens"},
        "outside": "wall time and memory on multi-megabyte inputs; 'work bounded by the limit' is decided as: the result does not depend on anything after the first limit+2 tokens",
        "assumptions": PARSE_ASSUME,
    },
    "C08": {
        "units": [{"pkg": "verifh/hval", "fn": "ValidateRef", "cases": validate_cases, "panic_prop": "C02"},
                  {"pkg": "verifh/hval", "fn": "TypeCompat", "cases": {"quick": [{}], "thorough": [{}]}, "panic_prop": "C02"}],
        "covers": ["C08.accepted", "C08.rejected", "C08.accepted-optional-arg", "C08.accepted-required-arg", "C08.accepted-variable-in-optional-arg",
                   "C08.compatible-pair", "C08.incompatible-pair"],
        "case_timeout": {"quick": 400, "thorough": 1200},
        "bounds": {"quick": "14 document shapes (one argument with every kind of literal incl. 32/64-bit integer boundaries, list/object/empty-object literals; a variable definition of every type shape with/without default used bare, in a list, in an object; fragments/spreads/type conditions; field merging below an interface; same-named fields with different arguments; directives; operation kinds/names/subscriptions; introspection depth 5; nested selections) with all names symbolic, against the full default rule set; verdict compared with the reference validator; plus the type-level unit: (*ast.Type).IsCompatible against AreTypesCompatible on every pair of types up to three list levels with every non-null pattern",
                   "thorough": "the same plus the heaviest fragment pieces (two fragments that both spread, with an inline fragment)"},
        "outside": "documents larger than the shapes; interactions needing more than 2 fragments or depth > 5; schemas other than the kitchen-sink one; per-rule verdicts (only the overall verdict is compared)",
        "assumptions": VALIDATE_ASSUME,
    },
    "C07": {
        "units": [{"pkg": "verifh/hval", "fn": "SchemaLoadRef", "cases": schema_load_cases, "panic_prop": "C02"}],
        "covers": ["C07.loaded", "C07.rejected", "C07.query-root", "C07.type-named-mutation-is-not-a-root"],
        "case_timeout": {"quick": 400, "thorough": 1200},
        "level_text": "Type-system documents are token streams whose names (type references, kinds, member names, directive names and locations, root names) are solver variables; the real parser (lexer stubbed) and the real loader (validator.ValidateSchemaDocument on prelude + document, merged exactly as LoadSchema merges them) run symbolically. The loader's verdict is asserted equal to a reference checker written from section 3 of the specification, one function per rule of the property's statement; every returned schema is then asserted closed (built-ins present, introspection fields on the query root, every link resolves to the right kind, possible-type and implements relations equal the ones recomputed from the definitions, roots as written or defaulted).",
        "bounds": {"quick": "7 type-system shapes (covariance of an implemented field over 5x6 named types x 5x5 list/non-null shapes incl. a union with an undefined member; arguments of an implemented field; interfaces implementing interfaces, transitively; kinds in output/argument/input/union/enum positions; reserved names, duplicates, empty definitions, extension kinds; directive locations x 10 use sites, required/unknown/null arguments, self-reference; root operation types with/without schema definition and extensions), all names symbolic",
                   "thorough": "same"},
        "outside": "type systems larger than the shapes; descriptions, default values (the loader does not check them); rules not in the property's list (duplicate enum values / union members / arguments, an interface implementing itself)",
        "assumptions": PARSE_ASSUME + ["the prelude is parsed with the real lexer, concretely"],
    },
    "C17": {
        "units": [{"pkg": "verifh/hval", "fn": "SchemaOrder", "cases": schema_order_cases, "panic_prop": "C02"}],
        "covers": ["C17.both-loaded", "C17.both-rejected"],
        "case_timeout": {"quick": 600, "thorough": 2400},
        "level_text": "Self-composition: the definitions of a type-system shape (same solver variables for the names) are loaded once in the written order from one source and once reordered / distributed over sources; verdicts and, when both load, the two schemas (types, fields/values/members/interfaces as sets, relations, roots, directives) are asserted equal; an error must name one of the sources.",
        "bounds": {"quick": "the C07 shapes (53 pieces), each reversed over one source per definition; the extension-only shape also under every rotation in one source",
                   "thorough": "each piece under 9 reorderings / distributions (reversed: one source per definition, one source, two sources cut in the middle; rotated by one and by n-1; first two, first and last, middle two definitions swapped); the extension-only shape under the reversal, every rotation and every transposition of its 8 definitions and every two-source cut"},
        "outside": "all other orders and distributions (n! orders x all partitions are not explored: 9 per piece, 52 for the extension-only shape); more than 8 definitions",
        "assumptions": PARSE_ASSUME + ["the prelude is parsed with the real lexer, concretely"],
    },
    "C12": {
        "units": [{"pkg": "verifh/hfmt", "fn": "StringValue",
                   "cases": {"quick": [{"n": n, "block": b} for n in (0, 1, 2) for b in (0, 1)],
                             "thorough": [{"n": n, "block": b} for n in (0, 1, 2, 3) for b in (0, 1)] + [{"n": 4, "block": 0}]},
                   "panic_prop": "C12"},
                  {"pkg": "verifh/hfmt", "fn": "QueryRoundTrip",
                   "cases": roundtrip_cases(NQ_DOCS, NQ_HOLES, (0, 1, 2, 7), (0, 1, 2, 3, 7, 9, 14), (3,), nextra=5, xk1=(1, 2, 3)), "panic_prop": "C12"}],
        "covers": ["C12.string-read-back", "C12.document-parsed", "C12.formatted-text-parsed"],
        "case_timeout": {"quick": 600, "thorough": 3000},
        "level_text": "Two units. (1) Text of string values: the value of a string argument is n arbitrary bytes (solver variables; assumed well-formed UTF-8 or free of characters that need an escape - the two forms a lexed string value can take), the real formatter prints a one-field document holding it (Value.String's quoting runs symbolically), the real lexer reads the text back, and the token value is asserted equal to the bytes. (2) Structure and fixpoint: the document is a symbolic token stream of the C05 harness (a complete seed document with 1-2 arbitrary tokens inserted at every position, or a hole template at every value / name position filled with 1-2 arbitrary tokens). It is parsed symbolically by the real parser; on every accepting path the structure is case-split and every leaf (ordinary names: one arbitrary letter; integers: one arbitrary digit; string / block-string / comment text: one arbitrary character of '#'..'Z') is a fresh solver variable. The real formatter prints that tree under the case's configuration, the real lexer and parser read the text (concrete layout, symbolic leaf bytes; lexer paths over a leaf re-join inside ReadToken), and the harness asserts: the text parses; both trees give the same event list (operations, fragments, variable definitions with types / defaults / directives, selections, aliases, arguments, values, directives; a block string and a quoted string holding the same text count as the same value); formatting the second tree reproduces the text.",
        "bounds": {"quick": "strings: <= 2 arbitrary bytes, default options; structure: the 17 seed documents with 1 token inserted anywhere under 4 configurations (default; comments; compacted; comments + compacted + two-blank indent) and 2 tokens under one (comments + compacted), the 13 hole templates with 1-2 tokens; 5 documents written for the printer (every optional part present; a comment before every token) as they are under 7 configurations; leaves one symbolic character each",
                   "thorough": "strings <= 3 bytes (4 for ordinary strings); structure: 1-2 inserted tokens under 7 configurations (incl. empty indent, blank+tab indent), holes with 1-3 tokens, the shorter printer documents with 1 token inserted anywhere"},
        "outside": "documents larger than the seed documents plus 3 tokens; leaves longer than one character (names that are prefixes of keywords, multi-digit numbers); string values longer than the bound together with structure; values built by hand that no lexer run can produce; indents other than the four tried (the property says any white-space indent)",
        "assumptions": PARSE_ASSUME[:1] + ["bytes.Buffer and strings.Builder are engine models (append-only byte sequences)", "strings.TrimSpace / TrimPrefix on a string of concrete length with symbolic bytes are engine models (ASCII; a feasible non-ASCII byte is refused)", "a block-string value and a quoted-string value with the same text are the same value (the printer writes every string value quoted)"],
    },
    "C13": {
        "units": [{"pkg": "verifh/hfmt", "fn": "Description",
                   "cases": {"quick": [{"n": n, "where": w} for n in (1, 2) for w in (0, 1)], "thorough": [{"n": n, "where": w} for n in (1, 2, 3) for w in (0, 1)]}, "panic_prop": "C13"},
                  {"pkg": "verifh/hfmt", "fn": "SchemaRoundTrip",
                   "cases": roundtrip_cases(NS_DOCS, NS_HOLES, (0, 1, 2, 16, 23), (0, 1, 2, 3, 16, 17, 18, 19, 23, 9, 14), (19,), nextra=8, xk1=(0, 2)), "panic_prop": "C13"},
                  {"pkg": "verifh/hfmt", "fn": "LoadedSchema", "cases": loaded_schema_cases, "panic_prop": "C13"}],
        "covers": ["C13.description-read-back", "C13.document-parsed", "C13.formatted-text-parsed", "C13.schema-loaded", "C13.formatted-schema-loaded"],
        "case_timeout": {"quick": 600, "thorough": 3000},
        "level_text": "Two units. (1) Descriptions: a scalar definition (or a field) carrying a description of n arbitrary bytes (solver variables) is printed by the real FormatSchemaDocument, the real lexer reads the description token back (block-string value computation included), and the value is asserted equal to the description. (2) Structure and fixpoint of parsed schema documents: as for C12 over the type-system seed documents and hole templates of the C06 harness - symbolic parse, case split of the accepted structure, leaves as fresh solver variables, the real formatter under the case's configuration, the real lexer and parser on the text; asserted: the text parses, both documents give the same event list (schema definitions / extensions, directive definitions with arguments, repeatable, locations; definitions and extensions with kind, name, description, interfaces, directives, fields with arguments / types / defaults / directives, members, enum values), compared after folding several schema definitions (extensions) into one - the form the printer writes - and, with descriptions switched off, without descriptions; formatting the second document reproduces the text. (3) Loaded schemas: the type system is one of the symbolic shapes of the C07 check (names are solver variables), loaded symbolically by the real loader; on every path that loads, the names are case-split (a name decides which definition is meant: structure, not a leaf), FormatSchema prints the schema, the real lexer, parser and loader read the text back, and the two schemas are asserted equal (types with kind, description, interfaces, members, applied directives with arguments; fields and enum values in order with types, arguments, defaults, directives, descriptions; directive definitions with arguments, locations, repeatable; root operation types; schema directives and description) and the second schema prints to the same text.",
        "bounds": {"quick": "descriptions of 1-2 arbitrary bytes on a top-level definition and on a field, default options; structure: the 35 seed documents with 1 token inserted anywhere under 5 configurations (default; comments; compacted; descriptions off; comments + compacted + two-blank indent + descriptions off) and 2 tokens under one (comments + compacted + descriptions off), the 25 hole templates with 1-2 tokens; 8 documents written for the printer (descriptions, name-valued defaults, several arguments, directives with arguments at every position, every extension kind, a comment before every token) as they are under 11 configurations; loaded schemas: the 54 pieces of the 8 type-system shapes, one formatter configuration each (rotating over default, comments, compacted, descriptions off, comments + compacted + two-blank indent)",
                   "thorough": "loaded schemas under 4 configurations each; descriptions 1-3 bytes; 1-2 inserted tokens under 11 configurations, holes with 1-3 tokens, the shorter printer documents with 1 token inserted anywhere"},
        "outside": "FormatSchema with built-ins switched on (its output re-declares the prelude and cannot be loaded through LoadSchema); loaded schemas beyond the 54 pieces of the C07 shapes (few descriptions and defaults there); documents accepted only through the listed finding KF-C06-schema-without-operation-types (`schema` without operation types prints as `schema {}`); descriptions of arguments, enum values and directive definitions beyond one character; longer descriptions together with structure; larger documents",
        "assumptions": PARSE_ASSUME[:1] + ["bytes.Buffer is an engine model", "strings.Split / TrimSpace / TrimPrefix on symbolic strings are modelled (engine self-test against Go)"],
    },
    "C14": {
        "units": [{"pkg": "verifh/hval", "fn": "VarCoerce", "cases": varcoerce_cases, "panic_prop": "C14"}],
        "covers": ["C14.coerced", "C14.refused", "C14.coerced-non-null", "C14.default-filled-in"],
        "case_timeout": {"quick": 600, "thorough": 2400},
        "level_text": "validator.VariableValues runs symbolically on an operation with one variable (parsed by the real parser, accepted by the real validator) and a JSON-like value built from nil, int, int64 (symbolic), float64, strings (symbolic choice incl. numeric and enum spellings), bool, json.Number, []interface{} and map[string]interface{} nested up to three levels, where the alternative chosen at every position is a solver variable. The coercer's reflection calls run against an engine model of package reflect (reflect.Value as static type + engine value; Kind, Elem, IsNil, IsValid, Type, Len, Index, MapKeys, MapIndex, SetMapIndex, Interface, String, MakeSlice, SliceOf, Append, with reflect's own panics) - reflect itself reads runtime type descriptors through unsafe pointers and cannot be executed; every counterexample is replayed against the real reflect natively. Asserted: no panic; a returned value conforms to the declared type (reference predicate written from section 3.x input coercion: non-null, lists item by item, input objects with only declared fields and every required field, enums holding a declared value, scalars of a compatible kind); a value that cannot be coerced is refused; a variable left out takes its default.",
        "bounds": {"quick": "18 variable types (Int, Int!, [Int], [Int!]!, [[Int]], [[Int!]]!, [[[Int]]], E, [E!], In, [In], In!, String, Float, Boolean, ID, custom scalar, list of it) x values nested up to 3 levels from 17 alternatives per position (7 at the deepest)",
                   "thorough": "same"},
        "outside": "values holding typed Go slices / maps other than []interface{} and map[string]interface{}, pointers and structs; more than one variable; 32-bit range of Int; numeric strings accepted for Int / Float (taken as the 'compatible kind' the property speaks of); __typename keys; list depth > 3; the reflect model is validated by replay of every finding and cover witness, not proved equivalent to package reflect",
        "assumptions": VALIDATE_ASSUME[:1] + ["package reflect is an engine model (listed in level_text)", "json.Number's String / Int64 / Float64 are executed from source; strconv.ParseInt / ParseFloat run per concrete option of a symbolic choice"],
    },
    "C15": {
        "units": [{"pkg": "verifh/hval", "fn": "ArgMap", "cases": argmap_cases, "panic_prop": "C15"}],
        "covers": ["C15.field-argument-map", "C15.directive-argument-map", "C15.explicit-null-kept", "C15.invalid-document-skipped"],
        "case_timeout": {"quick": 400, "thorough": 1200},
        "level_text": "Documents are the symbolic token streams of C08; only paths on which the real validator accepts the document go on (the precondition 'passed validation' is computed by the library itself). The variables map is built in the form coercion returns: each variable supplied with a conforming value, supplied as null (when nullable), or left out with its default filled in - the choice is a solver variable per variable definition. For every field and directive of every operation the real ArgumentMap runs symbolically; any panic is a violation (totality), and the result is asserted equal, key by key and value by value, to CoerceArgumentValues written from section 6.4.1 of the specification (literal, else variable value, else argument default; absent otherwise; lists and objects converted recursively with variables substituted).",
        "bounds": {"quick": "the C08 document shapes that carry arguments (one argument with every kind of literal at each of 14 argument positions incl. custom scalar, enum, input object, oneOf, nested list; variable definitions of every type shape with/without default used bare, in a list, in an object; directives with an argument on fields, operations and inline fragments; one position used twice; variables nested two levels deep in literals); 2-3 ways of supplying each variable",
                   "thorough": "same"},
        "outside": "fragment definitions' fields (only operations are walked); variables maps that did not come from coercion (a variable left out although it has a default); float values are compared by kind, not by value; documents larger than the shapes",
        "assumptions": VALIDATE_ASSUME[:3] + ["the variables map is constructed in the harness in the form VariableValues returns (defaults filled in), not by calling VariableValues"],
    },
    "C02": {
        "units": [{"pkg": "verifh/hval", "fn": "ValidateRef", "cases": validate_cases, "panic_prop": "C02"},
                  {"pkg": "verifh/hval", "fn": "SchemaLoadRef", "cases": schema_load_cases, "panic_prop": "C02"}],
        "covers": [],
        "case_timeout": {"quick": 400, "thorough": 1200},
        "bounds": {"quick": "validation part only: no run-time panic (index, nil, slice, type assertion, explicit panic, map write) and no exceeded unwinding/recursion bound in Validate with all rules on the C08 document shapes",
                   "thorough": "same with the heaviest fragment pieces"},
        "outside": "schema loading on arbitrary SDL (no harness yet); polynomial running time on kilobyte documents; adversarial size-parametrised families",
        "assumptions": VALIDATE_ASSUME,
    },
    "C10": {
        "units": [{"pkg": "verifh/hval", "fn": "Deterministic", "cases": determinism_cases, "panic_prop": None}],
        "covers": ["C10.compared-nonempty-lists"],
        "case_timeout": {"quick": 500, "thorough": 3000},
        "level_text": "Self-composition on the symbolic documents of C08: the same document is validated twice as the same tree, twice as fresh parses in one run (package-level state is part of the engine's state), and as fresh parses while every `range` over a map visits its entries in insertion order, reversed, rotated by one, and odd positions first; the error lists (rule, message text, locations, order) are asserted equal and the comparison is decided by z3 where names are symbolic. Three alternative iteration orders per map are a bounded stand-in for Go's unspecified order, not all permutations.",
        "bounds": {"quick": "26 pieces of the document shapes (every shape, lighter pieces), incl. misspelt names chosen to tie between suggestion candidates; 4 map iteration orders",
                   "thorough": "all pieces of the C08 shapes except seven that do not finish in 3000 s (the three heaviest fragment pieces, three operation-kind pieces, the two-field object literal piece)"},
        "outside": "iteration orders other than the four tried; hash-seed effects not expressible as iteration order; sort sizes above 12 (sort.Slice is modelled by a stable insertion sort, the real one is unstable there); natively a difference is confirmed by 40 repetitions under Go's randomised order, which is probabilistic",
        "assumptions": VALIDATE_ASSUME + ["sort.Slice / SliceStable run the caller's less function inside an engine-side insertion sort"],
    },
    "C18": {
        "units": [{"pkg": "verifh/hval", "fn": "Compose", "cases": compose_cases, "panic_prop": None}],
        "covers": ["C18.compared-nonempty-lists", "C18.suggestion-removed"],
        "case_timeout": {"quick": 600, "thorough": 3000},
        "level_text": "On the symbolic documents of C08 the same document is validated with the default rule set, with the explicit list of the 27 exported standard rules in registration order, with each rule alone, and with each 'without suggestions' variant next to its standard rule. Asserted, and decided by z3 where names are symbolic: default == explicit full list (rule, message, locations, order); the errors a rule reports alone are exactly, and in the same order, the errors tagged with it in the full run, and the full run reports nothing else; a twin reports the same number of errors at the same locations, tagged with its own name, and each standard message is the twin's message followed by nothing or by a ' Did you mean' suffix.",
        "bounds": {"quick": "11 light pieces of the document shapes (misspelt names with suggestions, fragments meeting twice, nesting, directives, same-named arguments, literals, fragments)",
                   "thorough": "16 pieces"},
        "outside": "subsets of rules other than singletons and the full list; the variable-definition shape and the heavier pieces of the others (37 validations per document do not finish in 600 s there)",
        "assumptions": VALIDATE_ASSUME + ["the explicit list is the package's exported standard rules in file order, which is their registration order"],
    },
    "C09": {
        "units": [{"pkg": "verifh/hval", "fn": "Links", "cases": validate_cases, "panic_prop": None}],
        "covers": ["C09.accepted", "C09.field", "C09.argument-value", "C09.list-literal", "C09.object-literal", "C09.variable-use", "C09.directive", "C09.spread"],
        "case_timeout": {"quick": 400, "thorough": 1200},
        "level_text": "On every symbolic document of the C08 shapes that passes validation with the full rule set, each link the walker leaves on the tree is asserted - by identity with the loaded schema's own objects - against a resolver written from the specification's notion of parent type: field definition and parent type (incl. __typename), fragment definition of every spread, type of every inline fragment and fragment definition, directive definition / location / parent, type definition of every variable definition, expected type and definition of every argument value and of every value nested in list and input-object literals, and the variable definition of every variable use. Decided per path by z3 where names are symbolic.",
        "bounds": {"quick": "the 70 pieces of the 12 document shapes; only documents the library accepts are inspected",
                   "thorough": "same plus the heaviest fragment pieces"},
        "outside": "documents larger than the shapes; operations sharing a fragment that uses a variable (which operation's definition wins is not specified); contents of custom-scalar literals (excepted by the property)",
        "assumptions": VALIDATE_ASSUME,
    },
    "C11": {
        "units": [{"pkg": "verifh/hval", "fn": "SchemaReadOnly", "cases": validate_cases, "panic_prop": "C11"}],
        "covers": ["C11.validated-ok", "C11.validated-with-errors"],
        "case_timeout": {"quick": 400, "thorough": 1200},
        "level_text": "The property is reduced to a per-call safety property that the engine decides: after the schema is loaded it is frozen, and no feasible path of Validate (all rules) on the symbolic documents stores into a frozen object (schema definitions, relation maps, package-level state); every Store, map update, delete, in-place append and sort is checked against the frozen layer. From 'no shared writes' the absence of data races among goroutines that each own their document follows by the Go memory model - that step is an argument, not something the solver decides. A positive control (a deliberate write after freezing) is run at setup.",
        "bounds": {"quick": "Validate with the full rule set on the 68 pieces of the C08 document shapes, schema frozen after loading",
                   "thorough": "same with the heaviest fragment pieces"},
        "outside": "goroutine interleavings and the race detector (not explored: replaced by the no-shared-write query plus the memory-model argument); VariableValues, ArgumentMap and FormatSchema (no harness yet); a store that writes back an identical value is reported by the engine but cannot be confirmed natively and makes the check undecided rather than a violation",
        "assumptions": VALIDATE_ASSUME + ["natively the schema is dumped (ast.Dump of every type and directive, relation entries) before and after and compared"],
    },
    "C20": {
        "units": [
            {"pkg": "verifh/hlex", "fn": "StepTotal", "cases": lex_cases(4, 6, cheap_top=(5, 6)), "panic_prop": None},
            {"pkg": "verifh/hparse", "fn": "QueryTotal", "cases": stream_cases(NQ_PREFIX, NQ_ALPHA, 3, 2, 4, 3, {"invalid": 1}), "panic_prop": None},
            {"pkg": "verifh/hparse", "fn": "SchemaTotal", "cases": stream_cases(NS_PREFIX, NS_ALPHA, 3, 2, 4, 3, {"invalid": 1}), "panic_prop": None},
            {"pkg": "verifh/hval", "fn": "ValidateRef", "cases": validate_cases, "panic_prop": None},
        ],
        "covers": ["C20.lexer-error", "C20.syntax-error", "C20.token-limit-error", "C20.validation-error"],
        "case_timeout": {"quick": 400, "thorough": 1200},
        "level_text": "Every error the lexer, both parsers (with and without a token limit) and the validator produce on the symbolic inputs of C01/C08 passes through well-formedness assertions decided on the same symbolic runs: non-empty message, exactly one location for syntax errors and at least one with positive line and column for validation errors, a rule name on validation errors, the source's file name in the extensions, a non-empty Error() string; an unlocated error arises only from the token limit.",
        "bounds": {"quick": "lexer errors: <= 4 bytes after the cursor; syntax errors: streams <= 3 tokens (2 after an opening) with any token limit; validation errors: the 68 pieces of the C08 document shapes",
                   "thorough": "lexer <= 6 bytes; streams <= 4 tokens (3 after an opening); all validator pieces"},
        "outside": "errors of schema loading and of variable coercion (no harness yet); the constructors called directly with arbitrary arguments; NOT APPLICABLE to this technique: the JSON encoding of errors and the JSON round trip of error paths (encoding/json's reflection-driven codec is the deciding code, DESIGN section 6)",
        "assumptions": LEX_ASSUME[:1] + PARSE_ASSUME[:2] + VALIDATE_ASSUME[:1] + ["fmt.Sprintf/Errorf are modelled (literal parts verbatim, %s/%d spliced); message non-emptiness follows from the literal parts"],
    },
    "C03": {
        "units": [
            {"pkg": "verifh/hlex", "fn": "StepRef", "cases": lex_cases(5, 6), "panic_prop": "C03"},
        ],
        "covers": ["C03.error", "C03.name", "C03.number", "C03.comment", "C03.eof", "C03.string", "C03.blockstring"],
        "bounds": {"quick": "every well-formed UTF-8 string of <= 5 bytes after the cursor, and <= 5 bytes after each of 9 cheap concrete openings (inside a string, a unicode escape, after a backslash, in a comment, after a sign / leading zero / decimal point / exponent marker, two dots), <= 4 after the other 6 (<= 3 after two of the block-string ones), one token, against the reference lexer (kind, extent in characters, value, failure)",
                   "thorough": "<= 6 bytes plain (7 does not finish in 1000 s); <= 5 after the cheap openings, <= 4 after every block-string opening"},
        "outside": "longer inputs; ill-formed UTF-8 (covered for totality only, C01)",
        "assumptions": LEX_ASSUME + ["reference lexer hlex.RefNext written from section 2.1 of the October 2021 text; validated natively against lexer_test.yml at setup"],
    },
    "C04": {
        "units": [
            {"pkg": "verifh/hlex", "fn": "StepRef", "cases": lex_cases(5, 6), "panic_prop": None},
            {"pkg": "verifh/hlex", "fn": "StepTotal", "cases": lex_cases(4, 6, openings=False), "panic_prop": None},
        ],
        "covers": [],
        "bounds": {"quick": "token positions and the lexer's resting counters: <= 5 bytes after the cursor, <= 5 after 9 cheap concrete openings and <= 4 after the others, relative to the resting counters",
                   "thorough": "<= 6 bytes plain; <= 5 / 4 after openings"},
        "outside": "that a node's position is its first token; inputs beyond the bounds",
        "assumptions": LEX_ASSUME,
    },
}
NOT_APPLICABLE = {
    "C19": "Solver-based checking of the real code cannot reach this property. What decides it is encoding/json's reflection-driven encoder and decoder (type-word dispatch through unsafe pointers, Unmarshaler detection, case-insensitive field matching, its string escaping) interleaved with the custom decoders in ast/decode.go. The engine cannot execute that code (package reflect and unsafe are outside its SSA semantics; the reflect model built for C14 covers 18 calls over JSON-like values, not struct traversal by type descriptor), and a model of encoding/json precise enough to decide, say, which selection kind a JSON object decodes into would be a re-implementation whose verdict is about the model, not about /repo. No check is registered; see DESIGN.md section 6 (C19).",
}
