#!/usr/bin/env python3
"""Writes MANIFEST.json from checks.py (claimed) and NOT_APPLICABLE below."""
import json, sys
sys.path.insert(0, '/verif')
import checks

LEVEL_TEXT = {
 "C01": "Bounded symbolic execution of the real lexer (go/ssa of /repo, reloaded on every run): one ReadToken step from any resting cursor over every byte string within the bound; run-time panics, err<=>Invalid, progress, error locations inside the input are solver queries (unsat = holds for every input in the bound). Parser layer over symbolic token streams: see level_note.",
 "C03": "Bounded symbolic differential check: the real ReadToken and a reference lexer written from the specification run on the same symbolic bytes; kind, extent in characters, decoded value and failure are asserted equal and decided by z3 for every well-formed UTF-8 input within the bound.",
 "C04": "Same symbolic runs as C03 plus ghost line/column counters: token line, column, offsets and the lexer's resting counters are asserted against the reference for every input in the bound; error locations equal the position of the Invalid token.",
}

NOT_APPLICABLE = {
}

def main():
    props = [json.loads(l) for l in open('/verif/properties.jsonl')]
    out = {"version": 1, "setup_cmd": "cd /verif && ./build.sh",
           "hooks": {"guard": "verif", "enable": "none needed: harnesses use the exported API, unexported lexer/parser state is set through reflection (verifrt.Poke) natively and by field name in the engine; the tag 'verif' is reserved and guards nothing",
                     "baseline_off_cmd": "cd /repo && go test -json -vet=off -count=1 -timeout 25m ./...", "source_commits": [], "add_only": True},
           "engines": [{"name": "gosym", "path": "/verif/engine", "serves_properties": sorted(checks.CHECKS.keys()),
                        "kind_free_text": "bounded symbolic executor for go/ssa (x/tools v0.29.0) written for this task: bit-vector terms, symbolic strings, state merging at CFG joins, verification conditions discharged by z3 5.1.0 over a pipe; counterexamples replayed natively"}],
           "checks": [], "not_applicable": [],
           "notes": "exit 0 held / 1 reproduced unlisted violation / 2 undecided (never with a VIOLATION line). Known findings: /verif/known_findings.json."}
    for p in props:
        pid = p["id"]
        if pid in checks.CHECKS:
            spec = checks.CHECKS[pid]
            out["checks"].append({
                "property_id": pid,
                "quick_cmd": "bin/verif check %s --tier quick" % pid,
                "thorough_cmd": "bin/verif check %s --tier thorough" % pid,
                "evidence_file": "/verif/evidence/%s.json" % pid,
                "replay_cmd_template": "bin/verif replay {path}",
                "engine": "gosym",
                "level_claimed": {"category": "model_checking", "text": spec.get("level_text") or LEVEL_TEXT.get(pid, ""), "design_ref": "DESIGN.md section 5, " + pid},
                "level_note": "Bounds: quick: %s; thorough: %s. Outside: %s. Trusted: the engine's SSA semantics (self-tested, and every counterexample is replayed against the natively compiled library before it is reported), z3, the reference oracles in /verif/harness (validated natively against the repository's test corpora at setup), the models listed in the evidence under assumptions." % (spec["bounds"]["quick"], spec["bounds"]["thorough"], spec.get("outside", "")),
                "technique": spec.get("technique", "bounded symbolic execution of the Go SSA of /repo with SMT (z3, QF_BV) verification conditions; native replay of models"),
            })
        else:
            out["not_applicable"].append({"property_id": pid, "reason": checks.NOT_APPLICABLE.get(pid, "no check registered yet (under construction in this session)")})
    json.dump(out, open('/verif/MANIFEST.json', 'w'), indent=1)

main()
