package hlex

// Reference lexer, written from section 2.1 of the GraphQL specification
// (October 2021), one token at a time from a byte offset. It works on
// characters (decoded here, branch by branch, not with library tables) and
// reports extents both in bytes and in characters relative to the offset it
// started from.

const (
	KInvalid = iota
	KEOF
	KBang
	KDollar
	KAmp
	KParenL
	KParenR
	KSpread
	KColon
	KEquals
	KAt
	KBracketL
	KBracketR
	KBraceL
	KBraceR
	KPipe
	KName
	KInt
	KFloat
	KString
	KBlockString
	KComment
)

type RefTok struct {
	Kind   int
	Err    bool
	StartB int    // byte offset of the first byte of the token
	EndB   int    // byte offset after the token
	StartC int    // characters between the scan origin and the token start
	EndC   int    // characters between the scan origin and the token end
	Lines  int    // line terminators in the ignored region before the token
	ColC   int    // characters between the last line start (or the origin when Lines == 0) and the token start
	Value  string // semantic value: names, numbers, comments verbatim; strings decoded
	// Lookahead is set when a number is directly followed by '.' or a name
	// start: the grammar then admits no token here (the fields describe the
	// number as it would be without the restriction).
	Lookahead bool
	// LinesIn counts line terminators inside the token (block strings);
	// LastLineC is the character offset (from the origin) of the start of the
	// last line at the end of the token, or -1 when no terminator was passed.
	LinesIn   int
	LastLineC int
	// Surrogate is set when a \uXXXX escape names a surrogate code unit; the
	// value is then not compared.
	Surrogate bool
}

// char decodes one character of s at byte offset i (i < len(s)). Invalid
// UTF-8 yields (0xFFFD, 1, false).
func char(s string, i int) (r rune, w int, ok bool) {
	b0 := s[i]
	if b0 < 0x80 {
		return rune(b0), 1, true
	}
	n := len(s) - i
	cont := func(k int) bool { return s[i+k] >= 0x80 && s[i+k] <= 0xBF }
	if b0 >= 0xC2 && b0 <= 0xDF {
		if n >= 2 && cont(1) {
			return rune(b0&0x1F)<<6 | rune(s[i+1]&0x3F), 2, true
		}
		return 0xFFFD, 1, false
	}
	if b0 >= 0xE0 && b0 <= 0xEF {
		if n >= 3 && cont(1) && cont(2) {
			r := rune(b0&0x0F)<<12 | rune(s[i+1]&0x3F)<<6 | rune(s[i+2]&0x3F)
			if r >= 0x800 && !(r >= 0xD800 && r <= 0xDFFF) {
				return r, 3, true
			}
		}
		return 0xFFFD, 1, false
	}
	if b0 >= 0xF0 && b0 <= 0xF4 {
		if n >= 4 && cont(1) && cont(2) && cont(3) {
			r := rune(b0&0x07)<<18 | rune(s[i+1]&0x3F)<<12 | rune(s[i+2]&0x3F)<<6 | rune(s[i+3]&0x3F)
			if r >= 0x10000 && r <= 0x10FFFF {
				return r, 4, true
			}
		}
		return 0xFFFD, 1, false
	}
	return 0xFFFD, 1, false
}

func isDigit(b byte) bool     { return b >= '0' && b <= '9' }
func isNameStart(b byte) bool { return b == '_' || (b >= 'A' && b <= 'Z') || (b >= 'a' && b <= 'z') }
func isNameCont(b byte) bool  { return isNameStart(b) || isDigit(b) }

// sourceChar: tab, LF, CR and everything from U+0020 up.
func sourceChar(r rune) bool { return r == 0x9 || r == 0xA || r == 0xD || r >= 0x20 }

func hexVal(b byte) (int, bool) {
	switch {
	case b >= '0' && b <= '9':
		return int(b - '0'), true
	case b >= 'a' && b <= 'f':
		return int(b-'a') + 10, true
	case b >= 'A' && b <= 'F':
		return int(b-'A') + 10, true
	}
	return 0, false
}

// RefNext scans one token of s starting at byte offset from.
// strictNumbers enables the look-ahead restriction after numbers.
func RefNext(s string, from int, strictNumbers bool) RefTok {
	n := len(s)
	i := from // byte cursor
	c := 0    // characters consumed since from
	lines := 0
	lineStartC := 0
	// Ignored: BOM, white space, line terminators, commas.
	for i < n {
		b := s[i]
		if b == ' ' || b == '\t' || b == ',' {
			i++
			c++
			continue
		}
		if b == '\n' {
			i++
			c++
			lines++
			lineStartC = c
			continue
		}
		if b == '\r' {
			i++
			c++
			if i < n && s[i] == '\n' {
				i++
				c++
			}
			lines++
			lineStartC = c
			continue
		}
		if b == 0xEF && i+2 < n && s[i+1] == 0xBB && s[i+2] == 0xBF {
			i += 3
			c++
			continue
		}
		break
	}
	t := RefTok{StartB: i, StartC: c, Lines: lines, ColC: c - lineStartC, LastLineC: -1}
	if lines > 0 {
		t.LastLineC = lineStartC
	}
	if i >= n {
		t.Kind, t.EndB, t.EndC = KEOF, i, c
		return t
	}
	fail := func() RefTok { t.Err, t.Kind = true, KInvalid; return t }
	done := func(kind, endB, endC int) RefTok {
		t.Kind, t.EndB, t.EndC = kind, endB, endC
		return t
	}
	b := s[i]
	switch b {
	case '!':
		return done(KBang, i+1, c+1)
	case '$':
		return done(KDollar, i+1, c+1)
	case '&':
		return done(KAmp, i+1, c+1)
	case '(':
		return done(KParenL, i+1, c+1)
	case ')':
		return done(KParenR, i+1, c+1)
	case ':':
		return done(KColon, i+1, c+1)
	case '=':
		return done(KEquals, i+1, c+1)
	case '@':
		return done(KAt, i+1, c+1)
	case '[':
		return done(KBracketL, i+1, c+1)
	case ']':
		return done(KBracketR, i+1, c+1)
	case '{':
		return done(KBraceL, i+1, c+1)
	case '}':
		return done(KBraceR, i+1, c+1)
	case '|':
		return done(KPipe, i+1, c+1)
	case '.':
		if i+2 < n && s[i+1] == '.' && s[i+2] == '.' {
			return done(KSpread, i+3, c+3)
		}
		return fail()
	case '#':
		j, cc := i+1, c+1
		for j < n {
			r, w, _ := char(s, j)
			if r == '\n' || r == '\r' || !sourceChar(r) {
				break
			}
			j += w
			cc++
		}
		t.Value = s[i:j]
		return done(KComment, j, cc)
	case '"':
		if i+2 < n && s[i+1] == '"' && s[i+2] == '"' {
			return refBlockString(s, t, i, c)
		}
		return refString(s, t, i, c)
	}
	if isNameStart(b) {
		j := i + 1
		for j < n && isNameCont(s[j]) {
			j++
		}
		t.Value = s[i:j]
		return done(KName, j, c+(j-i))
	}
	if b == '-' || isDigit(b) {
		j := i
		if s[j] == '-' {
			j++
		}
		if j >= n || !isDigit(s[j]) {
			return fail()
		}
		if s[j] == '0' {
			j++
			if j < n && isDigit(s[j]) {
				return fail()
			}
		} else {
			for j < n && isDigit(s[j]) {
				j++
			}
		}
		kind := KInt
		if j < n && s[j] == '.' {
			kind = KFloat
			j++
			if j >= n || !isDigit(s[j]) {
				return fail()
			}
			for j < n && isDigit(s[j]) {
				j++
			}
		}
		if j < n && (s[j] == 'e' || s[j] == 'E') {
			kind = KFloat
			j++
			if j < n && (s[j] == '+' || s[j] == '-') {
				j++
			}
			if j >= n || !isDigit(s[j]) {
				return fail()
			}
			for j < n && isDigit(s[j]) {
				j++
			}
		}
		if j < n && (s[j] == '.' || isNameStart(s[j])) {
			if strictNumbers {
				return fail()
			}
			t.Lookahead = true
		}
		t.Value = s[i:j]
		return done(kind, j, c+(j-i))
	}
	return fail()
}

func appendRune(v string, r rune) string {
	switch {
	case r < 0x80:
		return v + string([]byte{byte(r)})
	case r < 0x800:
		return v + string([]byte{0xC0 | byte(r>>6), 0x80 | byte(r)&0x3F})
	case r < 0x10000:
		return v + string([]byte{0xE0 | byte(r>>12), 0x80 | byte(r>>6)&0x3F, 0x80 | byte(r)&0x3F})
	}
	return v + string([]byte{0xF0 | byte(r>>18), 0x80 | byte(r>>12)&0x3F, 0x80 | byte(r>>6)&0x3F, 0x80 | byte(r)&0x3F})
}

func refString(s string, t RefTok, i, c int) RefTok {
	n := len(s)
	j, cc := i+1, c+1
	val := ""
	for j < n {
		b := s[j]
		if b == '"' {
			t.Kind, t.EndB, t.EndC, t.Value = KString, j+1, cc+1, val
			return t
		}
		if b == '\n' || b == '\r' {
			break
		}
		if b == '\\' {
			if j+1 >= n {
				break
			}
			e := s[j+1]
			if e == 'u' {
				if j+5 >= n {
					break
				}
				v := 0
				for k := 2; k <= 5; k++ {
					h, ok := hexVal(s[j+k])
					if !ok {
						t.Err, t.Kind = true, KInvalid
						return t
					}
					v = v<<4 | h
				}
				if v >= 0xD800 && v <= 0xDFFF {
					t.Surrogate = true
					v = 0xFFFD
				}
				val = appendRune(val, rune(v))
				j += 6
				cc += 6
				continue
			}
			var d byte
			switch e {
			case '"':
				d = '"'
			case '\\':
				d = '\\'
			case '/':
				d = '/'
			case 'b':
				d = 8
			case 'f':
				d = 12
			case 'n':
				d = 10
			case 'r':
				d = 13
			case 't':
				d = 9
			default:
				t.Err, t.Kind = true, KInvalid
				return t
			}
			val += string([]byte{d})
			j += 2
			cc += 2
			continue
		}
		r, w, _ := char(s, j)
		if !sourceChar(r) {
			break
		}
		val += s[j : j+w]
		j += w
		cc++
	}
	t.Err, t.Kind = true, KInvalid
	return t
}

func refBlockString(s string, t RefTok, i, c int) RefTok {
	n := len(s)
	j, cc := i+3, c+3
	raw := ""
	for j < n {
		b := s[j]
		if b == '"' && j+2 < n && s[j+1] == '"' && s[j+2] == '"' {
			t.Kind, t.EndB, t.EndC, t.Value = KBlockString, j+3, cc+3, BlockStringValue(raw)
			return t
		}
		if b == '\\' && j+3 < n && s[j+1] == '"' && s[j+2] == '"' && s[j+3] == '"' {
			raw += `"""`
			j += 4
			cc += 4
			continue
		}
		if b == '\r' && j+1 < n && s[j+1] == '\n' {
			raw += "\r\n"
			j += 2
			cc += 2
			t.LinesIn++
			t.LastLineC = cc
			continue
		}
		r, w, _ := char(s, j)
		if !sourceChar(r) {
			break
		}
		raw += s[j : j+w]
		j += w
		cc++
		if b == '\n' || b == '\r' {
			t.LinesIn++
			t.LastLineC = cc
		}
	}
	t.Err, t.Kind = true, KInvalid
	return t
}

func isBlank(line string) bool {
	for k := 0; k < len(line); k++ {
		if line[k] != ' ' && line[k] != '\t' {
			return false
		}
	}
	return true
}

func indentOf(line string) int {
	k := 0
	for k < len(line) && (line[k] == ' ' || line[k] == '\t') {
		k++
	}
	return k
}

// BlockStringValue is the algorithm of section 2.9.4.
func BlockStringValue(raw string) string {
	// split into lines at LF, CR, CRLF
	var lines []string
	start := 0
	for k := 0; k < len(raw); k++ {
		if raw[k] == '\n' {
			lines = append(lines, raw[start:k])
			start = k + 1
		} else if raw[k] == '\r' {
			lines = append(lines, raw[start:k])
			if k+1 < len(raw) && raw[k+1] == '\n' {
				k++
			}
			start = k + 1
		}
	}
	lines = append(lines, raw[start:])
	common := -1
	for k := 1; k < len(lines); k++ {
		ind := indentOf(lines[k])
		if ind < len(lines[k]) && (common < 0 || ind < common) {
			common = ind
		}
	}
	if common > 0 {
		for k := 1; k < len(lines); k++ {
			if len(lines[k]) >= common {
				lines[k] = lines[k][common:]
			} else {
				lines[k] = ""
			}
		}
	}
	lo, hi := 0, len(lines)
	for lo < hi && isBlank(lines[lo]) {
		lo++
	}
	for lo < hi && isBlank(lines[hi-1]) {
		hi--
	}
	out := ""
	for k := lo; k < hi; k++ {
		if k > lo {
			out += "\n"
		}
		out += lines[k]
	}
	return out
}
