package hlex

import (
	"verifh/verifrt"

	"github.com/vektah/gqlparser/v2/ast"
	"github.com/vektah/gqlparser/v2/gqlerror"
	"github.com/vektah/gqlparser/v2/lexer"
)

// validFrom: s[p:] is well-formed UTF-8.
func validFrom(s string, p int) bool {
	for i := p; i < len(s); {
		_, w, ok := char(s, i)
		if !ok {
			return false
		}
		i += w
	}
	return true
}

func terminators(s string, p int) int {
	c := 0
	for i := p; i < len(s); i++ {
		if s[i] == '\n' || s[i] == '\r' {
			c++
		}
	}
	return c
}

// Openings are concrete bytes placed at the cursor before the symbolic ones, so
// that states deep inside a scanner (an open block string, an escape, a
// comment, a number) are reached without spending symbolic bytes on delimiters.
var Openings = []string{
	"",         // 0: none
	`"""`,      // 1: inside a block string
	`"`,        // 2: inside a string
	`"\u`,      // 3: inside a unicode escape
	`"\`,       // 4: after a backslash in a string
	"#",        // 5: inside a comment
	"-",        // 6: after a sign
	"0",        // 7: after a leading zero
	"1.",       // 8: after a decimal point
	"1e",       // 9: after an exponent marker
	`"""\`,     // 10: after a backslash in a block string
	"\r",       // 11: after a carriage return
	"\xef\xbb", // 12: inside a byte order mark
	"..",       // 13: two dots
	`"""a`,     // 14: block string with content on its first line
	"\"\"\"\r", // 15: just after a carriage return inside a block string
}

type stepEnv struct {
	n, p        int
	in          string
	r0, l0, ls0 int
	lx          lexer.Lexer
	src         *ast.Source
}

// setup builds a lexer resting at byte offset p of n symbolic bytes with
// arbitrary (consistent) character and line counters.
func setup() *stepEnv {
	e := &stepEnv{}
	e.n = verifrt.Param("n", 3)
	e.p = verifrt.Param("p", 0)
	verifrt.SetOpt("feas", 0)
	verifrt.SetOpt("unwind", e.n+3)
	open := Openings[verifrt.Param("open", 0)]
	e.in = open + verifrt.Bytes("in", e.n)
	e.n = len(e.in)
	verifrt.SetOpt("unwind", e.n+3) // loops run over opening + symbolic bytes
	// character / line counters at rest: concrete per run (the lexer only adds
	// to and subtracts from them), chosen by the driver
	e.r0 = verifrt.Param("r0", 7)
	e.l0 = verifrt.Param("l0", 3)
	e.ls0 = verifrt.Param("ls0", 2)
	verifrt.Assume(e.ls0 <= e.r0)
	if e.p > 0 && e.p < e.n {
		// the cursor never rests between CR and LF (asserted as a post-condition below)
		verifrt.Assume(!(e.in[e.p-1] == '\r' && e.in[e.p] == '\n'))
	}
	verifrt.Show("input", e.in)
	e.src = &ast.Source{Name: "s.graphql", Input: e.in}
	e.lx = lexer.New(e.src)
	verifrt.Poke(&e.lx, "end", e.p)
	verifrt.Poke(&e.lx, "endRunes", e.r0)
	verifrt.Poke(&e.lx, "line", e.l0)
	verifrt.Poke(&e.lx, "lineStartRunes", e.ls0)
	return e
}

// StepTotal: C01 (lexer layer), one ReadToken from an arbitrary resting state
// over arbitrary bytes. C20 (lexer errors are well-formed) rides along.
func StepTotal() {
	e := setup()
	tok, err := e.lx.ReadToken()
	end := verifrt.Peek(&e.lx, "end")
	endRunes := verifrt.Peek(&e.lx, "endRunes")
	line := verifrt.Peek(&e.lx, "line")
	ls := verifrt.Peek(&e.lx, "lineStartRunes")
	if err != nil {
		verifrt.Cover("C01.error")
		verifrt.Cover("C20.lexer-error")
		verifrt.Assert(tok.Kind == lexer.Invalid, "C01.err-iff-invalid")
		gerr, ok := err.(*gqlerror.Error)
		verifrt.Assert(ok, "C20.lexer-error-type")
		if ok {
			verifrt.Assert(len(gerr.Message) > 0, "C20.message-nonempty")
			verifrt.Assert(len(gerr.Locations) == 1, "C20.one-location")
			if len(gerr.Locations) == 1 {
				loc := gerr.Locations[0]
				// first: an assertion that fails cuts its path, and the check of a property sees only its own labels
				verifrt.Assert(loc.Line >= 1 && loc.Column >= 1, "C20.location-positive")
				verifrt.Assert(loc.Line >= e.l0 && loc.Line <= e.l0+terminators(e.in, e.p), "C01.error-line-inside")
				verifrt.Assert(loc.Column >= 1 && loc.Column <= (e.r0-e.ls0)+(e.n-e.p)+1, "C01.error-column-inside")
				verifrt.Assert(loc.Line == tok.Pos.Line && loc.Column == tok.Pos.Column, "C04.error-loc-is-token-pos")
			}
			file, _ := gerr.Extensions["file"].(string)
			verifrt.Assert(file == "s.graphql", "C20.file")
		}
	}
	verifrt.Assert(end >= e.p && end <= e.n, "C01.cursor-in-bounds")
	verifrt.Assert(endRunes >= e.r0 && endRunes-e.r0 <= end-e.p, "C01.chars-le-bytes")
	verifrt.Assert(line >= e.l0 && ls <= endRunes && ls >= e.ls0, "C01.line-counters")
	if end > 0 && end < e.n {
		verifrt.Assert(!(e.in[end-1] == '\r' && e.in[end] == '\n'), "C01.never-between-crlf")
	}
	if err != nil {
		return
	}
	verifrt.Assert(tok.Kind != lexer.Invalid, "C01.err-iff-invalid")
	verifrt.Assert(tok.Pos.Src == e.src, "C04.src")
	if tok.Kind == lexer.EOF {
		verifrt.Cover("C01.eof")
		verifrt.Assert(end == e.n, "C01.eof-at-end")
		return
	}
	verifrt.Cover("C01.token")
	verifrt.Assert(end > e.p, "C01.progress")
	verifrt.Assert(tok.Pos.Start >= e.r0 && tok.Pos.Start < tok.Pos.End && tok.Pos.End <= endRunes, "C01.extent-ordered")
}

// StepRef: C03 and C04 (tokens), one ReadToken from an arbitrary resting
// state over well-formed UTF-8, against the reference lexer.
func StepRef() {
	e := setup()
	verifrt.Assume(validFrom(e.in, e.p))
	ref := RefNext(e.in, e.p, false)
	tok, err := e.lx.ReadToken()
	refErr := ref.Err || ref.Lookahead
	verifrt.Known("KF-C03-number-lookahead", ref.Lookahead && !ref.Err)
	verifrt.Assert((err != nil) == refErr, "C03.fails-iff-no-token")
	if err != nil || ref.Err {
		verifrt.Cover("C03.error")
		return
	}
	end := verifrt.Peek(&e.lx, "end")
	endRunes := verifrt.Peek(&e.lx, "endRunes")
	line := verifrt.Peek(&e.lx, "line")
	ls := verifrt.Peek(&e.lx, "lineStartRunes")
	// listed finding: after a block string the library also skips any further quotes and
	// adds them to the value (the token's End still covers three closing quotes only).
	// Attributed where the library's cursor extends the reference's by quotes and nothing else.
	extraQ := ref.Kind == KBlockString && int(tok.Kind) == KBlockString && end > ref.EndB && onlyQuotes(e.in, ref.EndB, end)
	verifrt.Watch("extraQ", extraQ)
	verifrt.Watch("tok.Kind", int(tok.Kind))
	verifrt.Watch("ref.Kind", ref.Kind)
	verifrt.Watch("tok.Start", tok.Pos.Start)
	verifrt.Watch("tok.End", tok.Pos.End)
	verifrt.Watch("ref.StartC", ref.StartC)
	verifrt.Watch("ref.EndC", ref.EndC)
	verifrt.Watch("ref.EndB", ref.EndB)
	verifrt.Watch("end", end)
	verifrt.Watch("tok.Value", tok.Value)
	verifrt.Watch("ref.Value", ref.Value)
	verifrt.Assert(int(tok.Kind) == ref.Kind, "C03.kind")
	verifrt.Assert(tok.Pos.Start-e.r0 == ref.StartC, "C03.start")
	verifrt.Assert(tok.Pos.End-e.r0 == ref.EndC, "C03.end")
	if extraQ {
		// where the listed finding applies the comparison below fails and cuts the path: what the finding does
		// not excuse - the character cursor keeping step with the byte cursor over the extra quotes - is
		// asserted first (seeded change C04-6 hid behind the finding)
		verifrt.Assert(endRunes-e.r0 == ref.EndC+(end-ref.EndB), "C04.cursor-chars-match-bytes")
	}
	verifrt.Known("KF-C03-block-string-extra-quotes", extraQ)
	verifrt.Assert(end == ref.EndB && endRunes-e.r0 == ref.EndC, "C03.cursor-after-token")
	if !ref.Surrogate {
		verifrt.Known("KF-C03-block-string-extra-quotes", extraQ)
		verifrt.Assert(tok.Value == ref.Value, "C03.value")
	}
	// positions (C04)
	verifrt.Assert(tok.Pos.Src == e.src, "C04.src")
	verifrt.Assert(tok.Pos.Line == e.l0+ref.Lines, "C04.line")
	wantCol := ref.ColC + 1
	if ref.Lines == 0 {
		wantCol = (e.r0 - e.ls0) + ref.StartC + 1
	}
	// recorded, not repaired: the suite pins the column of String tokens to the
	// character after the opening quote (parser/schema_test.yml "extend \"Description\" type")
	verifrt.Known("KF-C04-string-column", ref.Kind == KString && tok.Pos.Column == wantCol+1)
	verifrt.Assert(tok.Pos.Column == wantCol, "C04.column")
	// resting state afterwards: counters describe the longer prefix
	verifrt.Assert(line == e.l0+ref.Lines+ref.LinesIn, "C04.line-counter")
	if ref.LastLineC < 0 {
		verifrt.Assert(ls == e.ls0, "C04.linestart-counter")
	} else {
		verifrt.Assert(ls == e.r0+ref.LastLineC, "C04.linestart-counter")
	}
	switch ref.Kind {
	case KString:
		verifrt.Cover("C03.string")
	case KBlockString:
		verifrt.Cover("C03.blockstring")
	case KName:
		verifrt.Cover("C03.name")
	case KInt, KFloat:
		verifrt.Cover("C03.number")
	case KComment:
		verifrt.Cover("C03.comment")
	case KEOF:
		verifrt.Cover("C03.eof")
	}
}

// onlyQuotes: s[from:to] is a non-empty run of quote characters.
func onlyQuotes(s string, from, to int) bool {
	if from >= to || to > len(s) {
		return false
	}
	for i := from; i < to; i++ {
		if s[i] != '"' {
			return false
		}
	}
	return true
}
