package hlex

import (
	"fmt"
	"math/rand"
	"os"
	"regexp"
	"strconv"
	"testing"
	"unicode/utf8"

	"github.com/vektah/gqlparser/v2/ast"
	"github.com/vektah/gqlparser/v2/lexer"
)

// corpusInputs pulls every `input:` scalar out of a yaml test file (good enough:
// single- and double-quoted one-line scalars).
func corpusInputs(path string) []string {
	b, err := os.ReadFile(path)
	if err != nil {
		return nil
	}
	var out []string
	re := regexp.MustCompile(`(?m)^\s*input:\s*(.*)$`)
	for _, m := range re.FindAllStringSubmatch(string(b), -1) {
		v := m[1]
		if len(v) >= 2 && v[0] == '"' {
			if s, err := strconv.Unquote(v); err == nil {
				out = append(out, s)
			}
		} else if len(v) >= 2 && v[0] == '\'' {
			out = append(out, regexp.MustCompile(`''`).ReplaceAllString(v[1:len(v)-1], "'"))
		} else if v != "" && v != "|" && v != ">" {
			out = append(out, v)
		}
	}
	return out
}

type diff struct{ in, what string }

func compare(in string, strict bool) *diff {
	lx := lexer.New(&ast.Source{Input: in, Name: "t"})
	pos := 0
	chars := 0
	for step := 0; step < len(in)+2; step++ {
		ref := RefNext(in, pos, strict)
		tok, err := lx.ReadToken()
		if (err != nil) != ref.Err {
			return &diff{in, fmt.Sprintf("token %d: impl err=%v ref err=%v", step, err, ref.Err)}
		}
		if err != nil {
			return nil
		}
		if int(tok.Kind) != ref.Kind {
			return &diff{in, fmt.Sprintf("token %d: kind impl=%s ref=%d", step, tok.Kind, ref.Kind)}
		}
		if tok.Pos.Start != chars+ref.StartC || tok.Pos.End != chars+ref.EndC {
			return &diff{in, fmt.Sprintf("token %d (%s): extent impl=[%d,%d) ref=[%d,%d)", step, tok.Kind, tok.Pos.Start, tok.Pos.End, chars+ref.StartC, chars+ref.EndC)}
		}
		if tok.Value != ref.Value && !ref.Surrogate {
			return &diff{in, fmt.Sprintf("token %d (%s): value impl=%q ref=%q", step, tok.Kind, tok.Value, ref.Value)}
		}
		if tok.Kind == lexer.EOF {
			return nil
		}
		chars += ref.EndC
		pos = ref.EndB
	}
	return &diff{in, "did not finish"}
}

func TestRefAgainstCorpus(t *testing.T) {
	ins := corpusInputs("/repo/lexer/lexer_test.yml")
	if len(ins) < 50 {
		t.Fatalf("corpus too small: %d", len(ins))
	}
	nd := 0
	for _, in := range ins {
		if d := compare(in, true); d != nil {
			nd++
			t.Logf("DIFF %q: %s", d.in, d.what)
		}
	}
	t.Logf("%d inputs, %d differences", len(ins), nd)
}

func TestRefRandom(t *testing.T) {
	alpha := []string{`"`, `\`, "u", "0", "1", ".", "e", "-", "+", "a", "_", " ", ",", "\n", "\r", "#", "{", "$", "\ufeff", "é", "\t", "n", "x", "E", "\x00", "\x7f", "😀"}
	rng := rand.New(rand.NewSource(1))
	kinds := map[string]int{}
	ex := map[string]string{}
	for i := 0; i < 400000; i++ {
		n := 1 + rng.Intn(9)
		s := ""
		for k := 0; k < n; k++ {
			s += alpha[rng.Intn(len(alpha))]
		}
		if !utf8.ValidString(s) {
			continue
		}
		if d := compare(s, true); d != nil {
			key := regexp.MustCompile(`[0-9]+`).ReplaceAllString(d.what, "N")
			kinds[key]++
			if _, ok := ex[key]; !ok {
				ex[key] = d.in
			}
		}
	}
	for k, v := range kinds {
		t.Logf("%6d  %s   e.g. %q", v, k, ex[k])
	}
}
