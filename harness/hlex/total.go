package hlex

import (
	"verifh/verifrt"

	"github.com/vektah/gqlparser/v2/ast"
	"github.com/vektah/gqlparser/v2/lexer"
)

// Total: C01-L. Lex n symbolic bytes to the end.
func Total() {
	n := verifrt.Param("n", 3)
	verifrt.SetOpt("feas", 0)
	verifrt.SetOpt("unwind", n+2)
	in := verifrt.Bytes("in", n)
	src := &ast.Source{Name: "x", Input: in}
	lx := lexer.New(src)
	for i := 0; i <= n+1; i++ {
		tok, err := lx.ReadToken()
		if err != nil {
			verifrt.Assert(tok.Kind == lexer.Invalid, "C01.err-kind")
			verifrt.Cover("C01.error")
			return
		}
		verifrt.Assert(tok.Kind != lexer.Invalid, "C01.kind-noerr")
		if tok.Kind == lexer.EOF {
			verifrt.Cover("C01.eof")
			return
		}
	}
	verifrt.Fail("C01.too-many-tokens")
}
