// Package registry names the harness functions for the native replay driver.
package registry

import (
	"verifh/hfmt"
	"verifh/hlex"
	"verifh/hparse"
	"verifh/hval"
)

var Harnesses = map[string]func(){
	"verifh/hlex.Total":                hlex.Total,
	"verifh/hlex.StepTotal":            hlex.StepTotal,
	"verifh/hlex.StepRef":              hlex.StepRef,
	"verifh/hparse.QueryRef":           hparse.QueryRef,
	"verifh/hparse.QueryTotal":         hparse.QueryTotal,
	"verifh/hparse.QueryLimit":         hparse.QueryLimit,
	"verifh/hparse.SchemaRef":          hparse.SchemaRef,
	"verifh/hparse.SchemaTotal":        hparse.SchemaTotal,
	"verifh/hparse.SchemaLimit":        hparse.SchemaLimit,
	"verifh/hval.Smoke":                hval.Smoke,
	"verifh/hval.ValidateRef":          hval.ValidateRef,
	"verifh/hval.TypeCompat":           hval.TypeCompat,
	"verifh/hval.Links":                hval.Links,
	"verifh/hval.Compose":              hval.Compose,
	"verifh/hval.Deterministic":        hval.Deterministic,
	"verifh/hval.SchemaReadOnly":       hval.SchemaReadOnly,
	"verifh/hval.SchemaLoadRef":        hval.SchemaLoadRef,
	"verifh/hval.SchemaOrder":          hval.SchemaOrder,
	"verifh/hval.ArgMap":               hval.ArgMap,
	"verifh/hval.VarCoerce":            hval.VarCoerce,
	"verifh/hval.ReflectModelSelfTest": hval.ReflectModelSelfTest,
	"verifh/hfmt.StringValue":          hfmt.StringValue,
	"verifh/hfmt.Description":          hfmt.Description,
	"verifh/hfmt.QueryRoundTrip":       hfmt.QueryRoundTrip,
	"verifh/hfmt.SchemaRoundTrip":      hfmt.SchemaRoundTrip,
	"verifh/hfmt.LoadedSchema":         hfmt.LoadedSchema,
	"verifh/hval.SplitGapSelfTest":     hval.SplitGapSelfTest,
	"verifh/hval.FrozenWriteSelfTest":  hval.FrozenWriteSelfTest,
}
