// Package registry names the harness functions for the native replay driver.
package registry

import (
	"verifh/hlex"
)

var Harnesses = map[string]func(){
	"verifh/hlex.Total":     hlex.Total,
	"verifh/hlex.StepTotal": hlex.StepTotal,
	"verifh/hlex.StepRef":   hlex.StepRef,
}
