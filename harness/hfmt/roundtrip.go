package hfmt

import (
	"bytes"

	"verifh/hparse"
	"verifh/verifrt"

	"github.com/vektah/gqlparser/v2/ast"
	"github.com/vektah/gqlparser/v2/formatter"
	"github.com/vektah/gqlparser/v2/parser"
)

const lexerStub = "(*github.com/vektah/gqlparser/v2/lexer.Lexer).ReadToken"

// fmtOptions: the formatter configuration of this case (parameter "fopt": bit 0 comments,
// bit 1 compacted, bits 2-3 the indent: tab / two blanks / none / blank+tab; bit 4
// descriptions off, bit 5 built-ins on - schema side only).
func fmtOptions() []formatter.FormatterOption {
	o := verifrt.Param("fopt", 0)
	var opts []formatter.FormatterOption
	if o&1 != 0 {
		opts = append(opts, formatter.WithComments())
	}
	if o&2 != 0 {
		opts = append(opts, formatter.WithCompacted())
	}
	switch (o >> 2) & 3 {
	case 1:
		opts = append(opts, formatter.WithIndent("  "))
	case 2:
		opts = append(opts, formatter.WithIndent(""))
	case 3:
		opts = append(opts, formatter.WithIndent(" \t"))
	}
	if o&16 != 0 {
		opts = append(opts, formatter.WithoutDescription())
	}
	if o&32 != 0 {
		opts = append(opts, formatter.WithBuiltin())
	}
	return opts
}

func formatQuery(doc *ast.QueryDocument) string {
	var out bytes.Buffer
	formatter.NewFormatter(&out, fmtOptions()...).FormatQueryDocument(doc)
	return out.String()
}

func formatSchemaDoc(doc *ast.SchemaDocument) string {
	var out bytes.Buffer
	formatter.NewFormatter(&out, fmtOptions()...).FormatSchemaDocument(doc)
	return out.String()
}

// QueryRoundTrip: C12, the structural half. The document is a symbolic token stream of the C05
// harness (concrete opening / seed document with arbitrary tokens inserted). It is first parsed
// symbolically; on every path the real parser accepts, the stream's structure is case-split and
// the leaves (names, integers, string / comment characters) are given fresh solver variables.
// That document is parsed, printed by the real formatter, the text - concrete layout,
// symbolic leaf bytes - is read by the real lexer and parser, and the two trees are asserted
// equal event by event; the second tree is printed again and the two texts asserted equal.
func QueryRoundTrip() {
	var toks []hparse.Tok
	var src *ast.Source
	if x := verifrt.Param("xdoc", -1); x >= 0 {
		toks, src = hparse.StreamFromDoc(ExtraQueryDocs()[x], verifrt.Param("k", 0), hparse.QueryAlphabet())
	} else {
		toks, src = hparse.QueryStream()
	}
	if _, err := parser.ParseQuery(src); err != nil {
		if verifrt.Param("xdoc", -1) >= 0 && verifrt.Param("k", 0) == 0 {
			verifrt.Fail("H.extra-document-does-not-parse")
		}
		return
	}
	ctoks := hparse.Concretize(toks, hparse.QueryAlphabet())
	src1 := hparse.Install(ctoks)
	doc, err := parser.ParseQuery(src1)
	if err != nil {
		verifrt.Fail("H.concretized-stream-not-accepted")
	}
	verifrt.Cover("C12.document-parsed")
	text := formatQuery(doc)
	verifrt.Show("formatted", text)
	verifrt.Unstub(lexerStub)
	verifrt.MergeIn(lexerStub) // the real lexer's paths over a symbolic leaf byte re-join inside ReadToken
	doc2, err2 := parser.ParseQuery(&ast.Source{Name: "formatted", Input: text})
	verifrt.Assert(err2 == nil, "C12.formatted-text-parses")
	if err2 != nil {
		return
	}
	verifrt.Cover("C12.formatted-text-parsed")
	verifrt.Assert(hparse.SameEvents(hparse.BlockAsString(hparse.WalkQuery(doc)), hparse.BlockAsString(hparse.WalkQuery(doc2))), "C12.same-document")
	text2 := formatQuery(doc2)
	verifrt.Assert(text2 == text, "C12.fixpoint")
}

// SchemaRoundTrip: C13, parsed schema documents (see QueryRoundTrip).
func SchemaRoundTrip() {
	var toks []hparse.Tok
	var src *ast.Source
	if x := verifrt.Param("xdoc", -1); x >= 0 {
		toks, src = hparse.StreamFromDoc(ExtraSchemaDocs()[x], verifrt.Param("k", 0), hparse.SchemaAlphabet())
	} else {
		toks, src = hparse.SchemaStream()
	}
	if _, err := parser.ParseSchema(src); err != nil {
		if verifrt.Param("xdoc", -1) >= 0 && verifrt.Param("k", 0) == 0 {
			verifrt.Fail("H.extra-document-does-not-parse")
		}
		return
	}
	ctoks := hparse.Concretize(toks, hparse.SchemaAlphabet())
	src1 := hparse.Install(ctoks)
	doc, err := parser.ParseSchema(src1)
	if err != nil {
		verifrt.Fail("H.concretized-stream-not-accepted")
	}
	for _, sd := range doc.Schema {
		if len(sd.OperationTypes) == 0 {
			// `schema` without operation types: not derivable, accepted by the parser only through the listed
			// finding KF-C06-schema-without-operation-types; the printer writes `schema {}`. Outside the claim.
			return
		}
	}
	verifrt.Cover("C13.document-parsed")
	text := formatSchemaDoc(doc)
	verifrt.Show("formatted", text)
	verifrt.Unstub(lexerStub)
	verifrt.MergeIn(lexerStub) // the real lexer's paths over a symbolic leaf byte re-join inside ReadToken
	doc2, err2 := parser.ParseSchema(&ast.Source{Name: "formatted", Input: text})
	verifrt.Assert(err2 == nil, "C13.formatted-text-parses")
	if err2 != nil {
		return
	}
	verifrt.Cover("C13.formatted-text-parsed")
	ev1, ev2 := hparse.BlockAsString(hparse.WalkSchema(doc)), hparse.BlockAsString(hparse.WalkSchema(doc2))
	if verifrt.Param("fopt", 0)&16 != 0 {
		ev1, ev2 = hparse.WithoutDescriptions(ev1), hparse.WithoutDescriptions(ev2)
	}
	ev1, ev2 = hparse.MergeSchemaDefs(ev1), hparse.MergeSchemaDefs(ev2)
	verifrt.Assert(hparse.SameEvents(ev1, ev2), "C13.same-document")
	text2 := formatSchemaDoc(doc2)
	// listed finding (pinned by the formatter's golden files): with descriptions switched off no comma
	// is written after an argument that has a description, the re-parsed document has no descriptions,
	// and its print has the comma
	verifrt.Known("KF-C13-no-comma-after-described-argument", verifrt.Param("fopt", 0)&16 != 0 && hasDescribedInnerArgument(doc))
	verifrt.Assert(text2 == text, "C13.fixpoint")
}

// hasDescribedInnerArgument: some argument definition that is not the last of its list has a description.
func hasDescribedInnerArgument(doc *ast.SchemaDocument) bool {
	inner := func(as ast.ArgumentDefinitionList) bool {
		for i, a := range as {
			if i != len(as)-1 && a.Description != "" {
				return true
			}
		}
		return false
	}
	for _, d := range doc.Directives {
		if inner(d.Arguments) {
			return true
		}
	}
	for _, l := range []ast.DefinitionList{doc.Definitions, doc.Extensions} {
		for _, d := range l {
			for _, f := range d.Fields {
				if inner(f.Arguments) {
					return true
				}
			}
		}
	}
	return false
}
