package hfmt

import "verifh/hparse"

// Documents written for the printer: every optional part of every production present at once
// (descriptions on everything, defaults that are names, several arguments, directives with
// arguments in every position, comments between any two tokens).

func nm(v string) hparse.Tok { return hparse.Tok{Kind: hparse.KName, Val: v} }
func pk(k int) hparse.Tok    { return hparse.Tok{Kind: k} }
func str(v string) hparse.Tok {
	return hparse.Tok{Kind: hparse.KString, Val: v}
}
func blk(v string) hparse.Tok { return hparse.Tok{Kind: hparse.KBlockString, Val: v} }
func num(v string) hparse.Tok { return hparse.Tok{Kind: hparse.KInt, Val: v} }
func cmt() hparse.Tok         { return hparse.Tok{Kind: hparse.KComment, Val: "#c"} }

const (
	lp, rp, lb, rb, lk, rk = hparse.KParenL, hparse.KParenR, hparse.KBraceL, hparse.KBraceR, hparse.KBracketL, hparse.KBracketR
	col, eq, at, dl, bang  = hparse.KColon, hparse.KEquals, hparse.KAt, hparse.KDollar, hparse.KBang
	amp, pipe, spread      = hparse.KAmp, hparse.KPipe, hparse.KSpread
)

// dir: @a(a: <v>)
func dir(v ...hparse.Tok) []hparse.Tok {
	return append(append([]hparse.Tok{pk(at), nm("a"), pk(lp), nm("a"), pk(col)}, v...), pk(rp))
}

func cat(parts ...[]hparse.Tok) []hparse.Tok {
	var out []hparse.Tok
	for _, p := range parts {
		out = append(out, p...)
	}
	return out
}

func t(ts ...hparse.Tok) []hparse.Tok { return ts }

// withComments puts a comment before every token of doc and one at the end.
func withComments(doc []hparse.Tok) []hparse.Tok {
	var out []hparse.Tok
	for _, x := range doc {
		out = append(out, cmt(), x)
	}
	return append(out, cmt())
}

func ExtraQueryDocs() [][]hparse.Tok {
	q1 := cat(
		t(nm("query"), nm("a"), pk(lp), pk(dl), nm("a"), pk(col), nm("a"), pk(eq), nm("b"),
			pk(dl), nm("b"), pk(col), pk(lk), nm("a"), pk(rk), pk(eq), pk(lk), num("1"), str("x"), pk(rk)), dir(num("1")), t(pk(rp)), dir(nm("b")),
		t(pk(lb), nm("a"), pk(col), nm("b"), pk(lp), nm("a"), pk(col), pk(lb), nm("a"), pk(col), num("1"), nm("b"), pk(col), pk(lk), pk(dl), nm("a"), nm("true"), pk(rk), pk(rb),
			nm("b"), pk(col), nm("null"), pk(rp)), dir(pk(dl), nm("b")), t(pk(at), nm("b")),
		t(pk(lb), nm("a"), pk(spread), nm("on"), nm("a")), dir(num("1")), t(pk(lb), nm("a"), pk(rb), pk(spread), nm("a")), dir(num("1")), t(pk(spread), pk(lb), nm("b"), pk(rb), pk(rb), pk(rb)),
		t(nm("fragment"), nm("a"), nm("on"), nm("a")), dir(nm("b")), t(pk(lb), nm("a"), pk(rb)))
	q2 := t(pk(lb), nm("a"), pk(lp), nm("a"), pk(col), hparse.Tok{Kind: hparse.KFloat, Val: "1.5"}, nm("b"), pk(col), str("x"), nm("c"), pk(col), blk("x"), nm("d"), pk(col), nm("b"), nm("e"), pk(col), pk(dl), nm("a"), nm("f"), pk(col), nm("true"), nm("g"), pk(col), num("1"), nm("e"), pk(col), num("1"), pk(rp),
		pk(lb), nm("a"), pk(rb), pk(rb), nm("mutation"), nm("a"), pk(lb), nm("a"), pk(rb), nm("subscription"), pk(lb), nm("a"), pk(rb))
	q3 := t(nm("query"), pk(lp), pk(dl), nm("a"), pk(col), nm("a"), pk(dl), nm("b"), pk(col), nm("a"), pk(bang), pk(rp), pk(lb), nm("a"), pk(lp), nm("a"), pk(col), pk(dl), nm("a"), nm("b"), pk(col), nm("b"), nm("c"), pk(col), num("1"), nm("e"), pk(col), num("1"), pk(rp), pk(rb))
	return [][]hparse.Tok{q1, q2, q3, withComments(q3), withComments(q2)}
}

func ExtraSchemaDocs() [][]hparse.Tok {
	s1 := cat(t(str("x"), nm("schema")), dir(num("1")), t(pk(lb), nm("query"), pk(col), nm("a"), nm("mutation"), pk(col), nm("b"), pk(rb),
		nm("extend"), nm("schema")), dir(nm("b")), t(pk(lb), nm("subscription"), pk(col), nm("a"), pk(rb), nm("extend"), nm("schema")), dir(num("1")))
	args := cat(t(pk(lp), str("x"), nm("a"), pk(col), nm("a"), pk(eq), nm("b"), str("x"), nm("b"), pk(col), pk(lk), nm("a"), pk(bang), pk(rk), pk(bang), pk(eq), pk(lk), num("1"), pk(rk)), dir(num("1")),
		t(nm("c"), pk(col), nm("a"), pk(eq), nm("true"), nm("d"), pk(col), nm("a"), pk(eq), num("1"), nm("e"), pk(col), nm("a"), pk(rp)))
	s2 := cat(t(str("x"), nm("type"), nm("a"), nm("implements"), nm("a"), pk(amp), nm("b")), dir(nm("b")), t(pk(lb), str("x"), nm("a")), args, t(pk(col), nm("a")), dir(num("1")),
		t(nm("b"), pk(col), pk(lk), nm("b"), pk(rk), blk("x"), nm("c"), pk(col), nm("a"), pk(rb)))
	s3 := cat(t(str("x"), nm("directive"), pk(at), nm("a")), args, t(nm("repeatable"), nm("on"), nm("FIELD"), pk(pipe), nm("OBJECT"),
		nm("directive"), pk(at), nm("b"), nm("on"), pk(pipe), nm("FIELD")))
	s4 := cat(t(str("x"), nm("enum"), nm("a")), dir(num("1")), t(pk(lb), str("x"), nm("a")), dir(num("1")), t(nm("b"), pk(rb),
		str("x"), nm("input"), nm("a")), dir(num("1")), t(pk(lb), str("x"), nm("a"), pk(col), nm("a"), pk(eq), nm("b")), dir(num("1")), t(nm("b"), pk(col), nm("a"), pk(eq), nm("b"), nm("c"), pk(col), nm("a"), pk(rb),
		str("x"), nm("union"), nm("a")), dir(num("1")), t(pk(eq), nm("a"), pk(pipe), nm("b"), str("x"), nm("scalar"), nm("a")), dir(num("1")),
		t(str("x"), nm("interface"), nm("a"), nm("implements"), nm("b")), dir(num("1")), t(pk(lb), nm("a"), pk(col), nm("a"), pk(rb)))
	s5 := cat(t(nm("extend"), nm("type"), nm("a"), nm("implements"), nm("b")), dir(num("1")), t(pk(lb), nm("a"), pk(col), nm("a"), pk(rb),
		nm("extend"), nm("interface"), nm("a")), dir(num("1")), t(nm("extend"), nm("union"), nm("a")), dir(num("1")), t(pk(eq), nm("a"),
		nm("extend"), nm("enum"), nm("a")), dir(num("1")), t(pk(lb), nm("a"), pk(rb), nm("extend"), nm("input"), nm("a")), dir(num("1")), t(pk(lb), nm("a"), pk(col), nm("a"), pk(rb),
		nm("extend"), nm("scalar"), nm("a")), dir(num("1")))
	return [][]hparse.Tok{s1, s2, s3, s4, s5, withComments(s2), withComments(s3), withComments(s4)}
}
