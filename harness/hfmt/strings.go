// Package hfmt: the printing half of the round-trip properties (C12, C13) for
// the part where rare inputs live - the text of string values and descriptions.
package hfmt

import (
	"bytes"
	"unicode/utf8"

	"verifh/verifrt"

	"github.com/vektah/gqlparser/v2/ast"
	"github.com/vektah/gqlparser/v2/formatter"
	"github.com/vektah/gqlparser/v2/lexer"
)

// hasInvalidUTF8: some byte of s is not part of a well-formed UTF-8 sequence.
func hasInvalidUTF8(s string) bool {
	for i := 0; i < len(s); {
		r, w := utf8.DecodeRuneInString(s[i:])
		if r == utf8.RuneError && w == 1 {
			return true
		}
		i += w
	}
	return false
}

// needsEscape: s cannot be written between quotes as it is.
func needsEscape(s string) bool {
	for i := 0; i < len(s); i++ {
		if c := s[i]; c < 0x20 || c == '"' || c == '\\' {
			return true
		}
	}
	return false
}

// StringValue: C12, "string values survive byte for byte whatever characters
// they contain". raw is any byte string of length n that a parsed document can
// hold: the lexer copies a string without escapes byte for byte (well-formed
// UTF-8 or not), and decodes a string with escapes rune by rune, which turns
// bytes that are not UTF-8 into U+FFFD. So raw is assumed to be well-formed
// UTF-8 or free of characters that need an escape. The value is printed by the
// real formatter inside a one-field document and the text is read back by the
// real lexer.
func StringValue() {
	n := verifrt.Param("n", 2)
	verifrt.SetOpt("unwind", 8*n+12)
	verifrt.SetOpt("realquote", 1)
	raw := verifrt.Bytes("s", n)
	verifrt.Assume(!hasInvalidUTF8(raw) || !needsEscape(raw))
	kind := ast.StringValue
	if verifrt.Param("block", 0) == 1 {
		kind = ast.BlockValue
	}
	v := &ast.Value{Kind: kind, Raw: raw}
	doc := &ast.QueryDocument{Operations: ast.OperationList{{Operation: ast.Query, SelectionSet: ast.SelectionSet{
		&ast.Field{Name: "f", Alias: "f", Arguments: ast.ArgumentList{{Name: "a", Value: v}}}}}}}
	var out bytes.Buffer
	formatter.NewFormatter(&out).FormatQueryDocument(doc)
	text := out.String()
	verifrt.Show("formatted", text)
	lx := lexer.New(&ast.Source{Name: "formatted", Input: text})
	// query { f ( a :
	for i := 0; i < 6; i++ {
		if _, err := lx.ReadToken(); err != nil {
			verifrt.Fail("H.prefix-does-not-lex")
		}
	}
	tok, err := lx.ReadToken()
	verifrt.Assert(err == nil && (tok.Kind == lexer.String || tok.Kind == lexer.BlockString), "C12.string-reparses")
	if err != nil {
		return
	}
	verifrt.Cover("C12.string-read-back")
	verifrt.Assert(tok.Value == raw, "C12.string-survives")
	end, err2 := lx.ReadToken()
	verifrt.Assert(err2 == nil && end.Kind == lexer.ParenR, "C12.string-is-one-token")
}

// Description: C13, descriptions. A definition with an arbitrary description
// of n bytes is printed and the description token is read back.
func Description() {
	n := verifrt.Param("n", 2)
	verifrt.SetOpt("unwind", 8*n+16)
	d := verifrt.Bytes("d", n)
	verifrt.Assume(len(d) > 0)
	// what a parsed description can hold: see StringValue (a block string is decoded rune by rune too)
	verifrt.Assume(!hasInvalidUTF8(d) || !needsEscape(d))
	doc := &ast.SchemaDocument{Definitions: ast.DefinitionList{{Kind: ast.Scalar, Name: "S", Description: d}}}
	skip, next := 0, "scalar"
	if verifrt.Param("where", 0) == 1 { // on a field: printed one level in
		doc = &ast.SchemaDocument{Definitions: ast.DefinitionList{{Kind: ast.Object, Name: "T",
			Fields: ast.FieldList{{Name: "f", Description: d, Type: ast.NamedType("Int", nil)}}}}}
		skip, next = 3, "f" // type T {
	}
	var out bytes.Buffer
	formatter.NewFormatter(&out).FormatSchemaDocument(doc)
	text := out.String()
	verifrt.Show("formatted", text)
	lx := lexer.New(&ast.Source{Name: "formatted", Input: text})
	for i := 0; i < skip; i++ {
		if _, err := lx.ReadToken(); err != nil {
			verifrt.Fail("H.prefix-does-not-lex")
		}
	}
	tok, err := lx.ReadToken()
	verifrt.Assert(err == nil && (tok.Kind == lexer.BlockString || tok.Kind == lexer.String), "C13.description-reparses")
	if err != nil {
		return
	}
	verifrt.Cover("C13.description-read-back")
	verifrt.Assert(tok.Value == d, "C13.description-survives")
	kw, err2 := lx.ReadToken()
	verifrt.Assert(err2 == nil && kw.Kind == lexer.Name && kw.Value == next, "C13.description-is-one-token")
}
