package hfmt

import (
	"bytes"
	"strconv"

	"verifh/hparse"
	"verifh/hval"
	"verifh/verifrt"

	"github.com/vektah/gqlparser/v2/ast"
	"github.com/vektah/gqlparser/v2/formatter"
	"github.com/vektah/gqlparser/v2/parser"
	"github.com/vektah/gqlparser/v2/validator"
)

func formatLoaded(s *ast.Schema) string {
	var out bytes.Buffer
	formatter.NewFormatter(&out, fmtOptions()...).FormatSchema(s)
	return out.String()
}

// LoadedSchema: C13, second half - "for every loaded schema, formatting it and loading the
// text yields a schema with the same types, fields, arguments, defaults, directives, root
// operation types and descriptions; formatting the result again reproduces the same text".
// The type system is one of the symbolic shapes of the C07 harness (names are solver
// variables). It is loaded symbolically by the real loader; on every path that loads, the
// names are case-split (a name decides which definition a reference means, so it is
// structure, not a leaf), the document is loaded again, printed by FormatSchema, the text is
// lexed, parsed and loaded by the real code, and the two schemas are compared.
func LoadedSchema() {
	verifrt.SetOpt("merge", 0)
	verifrt.SetOpt("unwind", 400)
	pre0, pre1, pre2 := hval.ParsePrelude(), hval.ParsePrelude(), hval.ParsePrelude()
	verifrt.Commit()
	toks := hval.ShapeTokens(verifrt.Param("shape", 0))
	doc0 := hval.MergeSources(pre0, []string{"stream.graphql"}, [][]hparse.Tok{toks})
	if _, err := validator.ValidateSchemaDocument(doc0); err != nil {
		verifrt.Cover("C13.schema-rejected-not-checked")
		return
	}
	ctoks := make([]hparse.Tok, len(toks))
	for i, t := range toks {
		ctoks[i] = hparse.Tok{Kind: t.Kind, Val: verifrt.SplitStr(t.Val)}
	}
	doc1 := hval.MergeSources(pre1, []string{"stream.graphql"}, [][]hparse.Tok{ctoks})
	s1, err := validator.ValidateSchemaDocument(doc1)
	if err != nil {
		verifrt.Fail("H.concretized-schema-does-not-load")
	}
	verifrt.Cover("C13.schema-loaded")
	// listed finding: the loader accepts a query root that is not an object type and appends the
	// introspection fields to it; the printer hides them and writes an empty field block
	verifrt.Known("KF-C13-root-not-an-object-type", s1.Query != nil && s1.Query.Kind != ast.Object)
	text := formatLoaded(s1)
	verifrt.Show("formatted", text)
	verifrt.Unstub(lexerStub)
	d2, perr := parser.ParseSchema(&ast.Source{Name: "formatted.graphql", Input: text})
	verifrt.Assert(perr == nil, "C13.formatted-schema-parses")
	if perr != nil {
		return
	}
	doc2 := &ast.SchemaDocument{}
	doc2.Merge(pre2)
	doc2.Merge(d2)
	s2, err2 := validator.ValidateSchemaDocument(doc2)
	verifrt.Assert(err2 == nil, "C13.formatted-schema-loads")
	if err2 != nil {
		return
	}
	verifrt.Cover("C13.formatted-schema-loaded")
	diff := schemaDiff(s1, s2, verifrt.Param("fopt", 0)&16 == 0)
	verifrt.Show("diff", diff)
	verifrt.Assert(diff == "", "C13.same-schema")
	text2 := formatLoaded(s2)
	verifrt.Assert(text2 == text, "C13.schema-fixpoint")
}

func dirsText(ds ast.DirectiveList) string {
	t := ""
	for _, d := range ds {
		t += "@" + d.Name + "("
		for _, a := range d.Arguments {
			t += a.Name + ":" + a.Value.String() + ","
		}
		t += ")"
	}
	return t
}

func argsDiff(where string, a, b ast.ArgumentDefinitionList, desc bool) string {
	if len(a) != len(b) {
		return "number of arguments of " + where
	}
	for i := range a {
		x, y := a[i], b[i]
		if x.Name != y.Name || x.Type.String() != y.Type.String() || (desc && x.Description != y.Description) ||
			(x.DefaultValue == nil) != (y.DefaultValue == nil) || dirsText(x.Directives) != dirsText(y.Directives) {
			return "argument " + where + "." + x.Name
		}
		if x.DefaultValue != nil && x.DefaultValue.String() != y.DefaultValue.String() {
			return "default of argument " + where + "." + x.Name
		}
	}
	return ""
}

func sameStrings(a, b []string) bool {
	if len(a) != len(b) {
		return false
	}
	for i := range a {
		if a[i] != b[i] {
			return false
		}
	}
	return true
}

// schemaDiff: "" when b has the same types (kind, description, interfaces, members, directives,
// fields with arguments, types, defaults, directives and descriptions, enum values - all in
// order), directive definitions, root operation types, schema directives and description as a.
func schemaDiff(a, b *ast.Schema, desc bool) string {
	if len(a.Types) != len(b.Types) {
		return "number of types " + strconv.Itoa(len(a.Types)) + " / " + strconv.Itoa(len(b.Types))
	}
	for n, da := range a.Types {
		db := b.Types[n]
		if db == nil {
			return "type " + n + " missing"
		}
		if da.Kind != db.Kind || (desc && da.Description != db.Description) || da.BuiltIn != db.BuiltIn {
			return "kind / description of " + n
		}
		if !sameStrings(da.Interfaces, db.Interfaces) || !sameStrings(da.Types, db.Types) {
			return "interfaces / members of " + n
		}
		if dirsText(da.Directives) != dirsText(db.Directives) {
			return "directives of " + n
		}
		if len(da.Fields) != len(db.Fields) || len(da.EnumValues) != len(db.EnumValues) {
			return "number of fields / values of " + n
		}
		for i, fa := range da.Fields {
			fb := db.Fields[i]
			if fa.Name != fb.Name || fa.Type.String() != fb.Type.String() || (desc && fa.Description != fb.Description) ||
				dirsText(fa.Directives) != dirsText(fb.Directives) || (fa.DefaultValue == nil) != (fb.DefaultValue == nil) {
				return "field " + n + "." + fa.Name
			}
			if fa.DefaultValue != nil && fa.DefaultValue.String() != fb.DefaultValue.String() {
				return "default of " + n + "." + fa.Name
			}
			if d := argsDiff(n+"."+fa.Name, fa.Arguments, fb.Arguments, desc); d != "" {
				return d
			}
		}
		for i, va := range da.EnumValues {
			vb := db.EnumValues[i]
			if va.Name != vb.Name || (desc && va.Description != vb.Description) || dirsText(va.Directives) != dirsText(vb.Directives) {
				return "enum value " + n + "." + va.Name
			}
		}
	}
	if len(a.Directives) != len(b.Directives) {
		return "number of directives"
	}
	for n, da := range a.Directives {
		db := b.Directives[n]
		if db == nil || da.IsRepeatable != db.IsRepeatable || (desc && da.Description != db.Description) || len(da.Locations) != len(db.Locations) {
			return "directive @" + n
		}
		for i := range da.Locations {
			if da.Locations[i] != db.Locations[i] {
				return "locations of @" + n
			}
		}
		if d := argsDiff("@"+n, da.Arguments, db.Arguments, desc); d != "" {
			return d
		}
	}
	name := func(d *ast.Definition) string {
		if d == nil {
			return ""
		}
		return d.Name
	}
	if name(a.Query) != name(b.Query) || name(a.Mutation) != name(b.Mutation) || name(a.Subscription) != name(b.Subscription) {
		return "root operation types"
	}
	if dirsText(a.SchemaDirectives) != dirsText(b.SchemaDirectives) {
		return "schema directives"
	}
	if desc && a.Description != b.Description {
		return "schema description"
	}
	return ""
}
