// Command replay runs one harness natively under a solver model
// (GOSYM_MODEL=<file>) and reports which assertions failed.
//
//	exit 0: no assertion failed   exit 3: assertion failed or panic
//	exit 4: the model violates an assumption (not a valid replay)
//	exit 64: usage error / unknown harness (2 is what the Go runtime itself uses for fatal errors)
package main

import (
	"fmt"
	"os"
	"runtime/debug"
	"sort"

	"verifh/registry"
	"verifh/verifrt"
)

func main() {
	if len(os.Args) < 2 {
		fmt.Fprintln(os.Stderr, "usage: replay <harness>")
		os.Exit(64)
	}
	name := os.Args[1]
	if name == "-list" {
		var hs []string
		for h := range registry.Harnesses {
			hs = append(hs, h)
		}
		sort.Strings(hs)
		for _, h := range hs {
			fmt.Println(h)
		}
		return
	}
	fn, ok := registry.Harnesses[name]
	if !ok {
		fmt.Fprintf(os.Stderr, "unknown harness %s\n", name)
		os.Exit(64)
	}
	code := 0
	func() {
		defer func() {
			if r := recover(); r != nil {
				switch x := r.(type) {
				case verifrt.AssumeFailed:
					fmt.Printf("ASSUME-FAILED %s\n", x.Msg)
					code = 4
				case verifrt.Stop:
				default:
					fmt.Printf("PANIC %v\n", r)
					if os.Getenv("GOSYM_TRACE") != "" {
						debug.PrintStack()
					}
					verifrt.Failed = append(verifrt.Failed, "panic")
				}
			}
		}()
		fn()
	}()
	for _, l := range verifrt.Failed {
		fmt.Printf("FAILED %s\n", l)
	}
	var cs []string
	for c := range verifrt.Covered {
		cs = append(cs, c)
	}
	sort.Strings(cs)
	for _, c := range cs {
		fmt.Printf("COVERED %s\n", c)
	}
	if code == 0 && len(verifrt.Failed) > 0 {
		code = 3
	}
	os.Exit(code)
}
