package hval

// C14: validator.VariableValues on a validated operation and a JSON-like
// variables map: returns normally; what it returns conforms to the declared
// type; what cannot conform is refused.

import (
	"encoding/json"
	"strconv"

	"verifh/hparse"
	"verifh/verifrt"

	"github.com/vektah/gqlparser/v2/ast"
	"github.com/vektah/gqlparser/v2/parser"
	"github.com/vektah/gqlparser/v2/validator"
)

// VarSchema (Schemas[2]): one field per variable type of the bound (each with
// the single argument a, so that no other argument is required): list depth 0..3 with non-null patterns over a scalar, an enum, a
// custom scalar and a recursive input object.
const VarSchema = `
type Query { i(a: Int): Int  i1(a: Int!): Int  l(a: [Int]): Int  l1(a: [Int!]!): Int  ll(a: [[Int]]): Int  ll1(a: [[Int!]]!): Int  lll(a: [[[Int]]]): Int  e(a: E): Int  el(a: [E!]): Int  in(a: In): Int  inl(a: [In]): Int  in1(a: In!): Int  s(a: String): Int  fl(a: Float): Int  b(a: Boolean): Int  id(a: ID): Int  c(a: Custom): Int  cl(a: [Custom]): Int }
enum E { X Y }
scalar Custom
input In { f: Int!  g: E = X  n: In  l: [Int]  d: Int! = 3 }
`

var varArgs = []string{"i", "i1", "l", "l1", "ll", "ll1", "lll", "e", "el", "in", "inl", "in1", "s", "fl", "b", "id", "c", "cl"}

func typeTokens(b *B, t *ast.Type) {
	if t.Elem != nil {
		b.p(hparse.KBracketL)
		typeTokens(b, t.Elem)
		b.p(hparse.KBracketR)
	} else {
		b.n(t.NamedType)
	}
	if t.NonNull {
		b.p(hparse.KBang)
	}
}

// genValue: a JSON-like value chosen by structural alternatives; the
// alternative at every position is a solver variable named after the position.
// 17 alternatives at the two upper levels, 10 at the third, leaves at the fourth.
func genValue(path string, depth int) interface{} {
	n := 17
	if depth == 2 {
		n = 10
	} else if depth >= 3 {
		n = 7
	}
	k := verifrt.Param("val"+path, -1)
	if k < 0 {
		k = verifrt.Split(verifrt.Int("val"+path+"_of"+strconv.Itoa(n), 0, n-1))
	} else if k >= n {
		verifrt.Fail("H.no-such-alternative")
	}
	switch k {
	case 0:
		return nil
	case 1:
		return 5
	case 2:
		return int64(verifrt.Int("int"+path, -1<<40, 1<<40))
	case 3:
		return 1.5
	case 4:
		return verifrt.Choice("str"+path, "s", "12", "1.5", "X", "x", "")
	case 5:
		return true
	case 6:
		return json.Number(verifrt.Choice("num"+path, "7", "1.5", "x", "99999999999999999999"))
	case 7:
		return []interface{}{}
	case 8:
		return []interface{}{genValue(path+".0", depth+1)}
	}
	if depth == 2 {
		return map[string]interface{}{"f": genValue(path+".f", depth+1)} // 9
	}
	switch k {
	case 9: // two items; the second is a leaf
		return []interface{}{genValue(path+".0", depth+1), genValue(path+".1", 3)}
	case 10:
		return map[string]interface{}{}
	case 11:
		return map[string]interface{}{"f": genValue(path+".f", depth+1)}
	case 12:
		return map[string]interface{}{"f": 1, "zz": 2}
	case 13:
		return map[string]interface{}{"f": 1, "n": genValue(path+".n", depth+1)}
	case 14:
		return map[string]interface{}{"f": 1, "l": genValue(path+".l", depth+1)}
	case 15:
		return map[string]interface{}{"f": 1, "g": genValue(path+".g", depth+1)}
	case 16:
		return map[string]interface{}{"f": 1, "d": genValue(path+".d", depth+1)}
	}
	return nil
}

// ---- reference ----

func isIntegral(x interface{}) bool {
	switch v := x.(type) {
	case int, int32, int64, float32, float64:
		return true
	case string:
		_, err := strconv.ParseInt(v, 10, 64)
		return err == nil
	case json.Number:
		_, err := strconv.ParseInt(string(v), 10, 64)
		return err == nil
	}
	return false
}

func isNumeric(x interface{}) bool {
	switch v := x.(type) {
	case int, int32, int64, float32, float64:
		return true
	case string:
		_, err := strconv.ParseFloat(v, 64)
		return err == nil
	case json.Number:
		_, err := strconv.ParseFloat(string(v), 64)
		return err == nil
	}
	return false
}

// asList: the items when x is a list of one of the Go types coercion can return.
func asList(x interface{}) ([]interface{}, bool) {
	switch v := x.(type) {
	case []interface{}:
		return v, true
	case []int:
		out := make([]interface{}, len(v))
		for i := range v {
			out[i] = v[i]
		}
		return out, true
	case []int64:
		out := make([]interface{}, len(v))
		for i := range v {
			out[i] = v[i]
		}
		return out, true
	case []float64:
		out := make([]interface{}, len(v))
		for i := range v {
			out[i] = v[i]
		}
		return out, true
	case []string:
		out := make([]interface{}, len(v))
		for i := range v {
			out[i] = v[i]
		}
		return out, true
	case []bool:
		out := make([]interface{}, len(v))
		for i := range v {
			out[i] = v[i]
		}
		return out, true
	case []json.Number:
		out := make([]interface{}, len(v))
		for i := range v {
			out[i] = v[i]
		}
		return out, true
	case []map[string]interface{}:
		out := make([]interface{}, len(v))
		for i := range v {
			out[i] = v[i]
		}
		return out, true
	case [][]interface{}:
		out := make([]interface{}, len(v))
		for i := range v {
			out[i] = v[i]
		}
		return out, true
	}
	return nil, false
}

// CLib: single departures of the coercer, for attribution.
type CLib struct {
	EnumAnyCase        bool // an enum value is accepted in any letter case and returned as written
	JSONNumberIsString bool // a json.Number (a number of the request) passes wherever a string does
}

// conforms: does the (coerced) value y conform to type t? Also used, with
// wrap=true, as "can the supplied value be coerced": a non-list value where a
// list is expected then stands for the one-item list of it.
func conforms(s *ast.Schema, t *ast.Type, y interface{}, wrap bool, lib CLib) bool {
	if y == nil {
		return !t.NonNull
	}
	if t.Elem != nil {
		items, isList := asList(y)
		if !isList {
			if !wrap {
				return false
			}
			// a single value stands for the one-item list of it, at every remaining list level
			return conforms(s, t.Elem, y, wrap, lib)
		}
		for _, it := range items {
			if !conforms(s, t.Elem, it, wrap, lib) {
				return false
			}
		}
		return true
	}
	def := s.Types[t.NamedType]
	if def == nil {
		return false
	}
	switch def.Kind {
	case ast.Scalar:
		switch t.NamedType {
		case "Int":
			return isIntegral(y)
		case "Float":
			return isNumeric(y)
		case "String":
			_, ok := y.(string)
			if _, isNum := y.(json.Number); isNum && lib.JSONNumberIsString {
				return true
			}
			return ok
		case "Boolean":
			_, ok := y.(bool)
			return ok
		case "ID":
			switch v := y.(type) {
			case int, int32, int64, string:
				return true
			case json.Number:
				return isIntegral(v) || lib.JSONNumberIsString
			}
			return false
		}
		return true // custom scalar: anything
	case ast.Enum:
		str, ok := y.(string)
		if num, isNum := y.(json.Number); isNum { // a string kind as well
			str, ok = string(num), true
		}
		if !ok {
			return false
		}
		for _, ev := range def.EnumValues {
			if ev.Name == str {
				return true
			}
			if lib.EnumAnyCase && len(ev.Name) == len(str) && lower(ev.Name) == lower(str) {
				return true
			}
		}
		return false
	case ast.InputObject:
		m, ok := y.(map[string]interface{})
		if !ok {
			return false
		}
		for k := range m {
			if def.Fields.ForName(k) == nil {
				return false
			}
		}
		for _, fd := range def.Fields {
			fv, present := m[fd.Name]
			if !present {
				if fd.Type.NonNull && fd.DefaultValue == nil {
					return false
				}
				continue
			}
			if !conforms(s, fd.Type, fv, wrap, lib) {
				return false
			}
		}
		return true
	}
	return false
}

func lower(s string) string {
	b := []byte(s)
	for i, c := range b {
		if c >= 'A' && c <= 'Z' {
			b[i] = c + 32
		}
	}
	return string(b)
}

// hasNullBelowList: x holds a null as an item of a list that is itself an item
// of a list or a field of an object (where the coercer dereferences it).
func nestedNull(x interface{}, inList bool) bool {
	switch v := x.(type) {
	case nil:
		return inList
	case []interface{}:
		for _, it := range v {
			if nestedNull(it, true) {
				return true
			}
		}
	case map[string]interface{}:
		for _, it := range v {
			if nestedNull(it, false) {
				return true
			}
		}
	}
	return false
}

// VarCoerce: C14.
func VarCoerce() {
	verifrt.SetOpt("merge", 0)
	verifrt.SetOpt("unwind", 200)
	schema := LoadTestSchema(2)
	verifrt.Commit()
	arg := varArgs[verifrt.Param("arg", 0)]
	at := schema.Query.Fields.ForName(arg).Arguments.ForName("a").Type
	b := &B{}
	b.ns("query", "Q")
	b.p(hparse.KParenL, hparse.KDollar)
	b.n("v")
	b.p(hparse.KColon)
	typeTokens(b, at)
	withDefault := false
	if at.Elem == nil && at.NamedType == "Int" && verifrt.Param("default", 0) == 1 {
		b.p(hparse.KEquals)
		b.lit(hparse.KInt, "4")
		withDefault = true
	}
	b.p(hparse.KParenR)
	b.braces(func() {
		b.n(arg)
		b.p(hparse.KParenL)
		b.n("a")
		b.p(hparse.KColon, hparse.KDollar)
		b.n("v")
		b.p(hparse.KParenR)
	})
	src := hparse.Install(b.toks)
	doc, perr := parser.ParseQuery(src)
	if perr != nil {
		verifrt.Fail("H.shape-does-not-parse")
	}
	if errs := validator.Validate(schema, doc); len(errs) != 0 {
		verifrt.Fail("H.operation-not-valid")
	}
	op := doc.Operations[0]
	vars := map[string]interface{}{}
	supplied := verifrt.Param("supplied", 1) == 1
	var input interface{}
	if supplied {
		input = genValue("", 0)
		vars["v"] = input
	}
	canConform := conforms(schema, at, input, true, CLib{})
	canConformAnyCase := conforms(schema, at, input, true, CLib{EnumAnyCase: true})
	canConformNumStr := conforms(schema, at, input, true, CLib{JSONNumberIsString: true})
	if !supplied {
		canConform = !at.NonNull || withDefault
		canConformAnyCase, canConformNumStr = canConform, canConform
	}
	verifrt.KnownPanic("KF-C14-null-in-nested-list-panics", supplied && nestedNull(input, false))
	out, err := validator.VariableValues(schema, op, vars)
	verifrt.ClearKnown()
	if err != nil {
		verifrt.Cover("C14.refused")
		return
	}
	verifrt.Cover("C14.coerced")
	verifrt.Known("KF-C14-enum-any-case", canConformAnyCase && !canConform)
	verifrt.Known("KF-C14-json-number-as-string", canConformNumStr && !canConform)
	verifrt.Assert(canConform, "C14.refuses-what-cannot-conform")
	got, present := out["v"]
	if !supplied {
		if withDefault {
			verifrt.Assert(present && got == int64(4), "C14.absent-takes-default")
			verifrt.Cover("C14.default-filled-in")
		} else {
			verifrt.Assert(!present, "C14.absent-stays-absent")
		}
		return
	}
	verifrt.Assert(present, "C14.supplied-is-returned")
	okStrict := conforms(schema, at, got, false, CLib{})
	verifrt.Known("KF-C14-enum-any-case", !okStrict && conforms(schema, at, got, false, CLib{EnumAnyCase: true}))
	verifrt.Known("KF-C14-single-value-for-nested-list", !okStrict && conforms(schema, at, got, true, CLib{}))
	verifrt.Known("KF-C14-json-number-as-string", !okStrict && conforms(schema, at, got, false, CLib{JSONNumberIsString: true}))
	verifrt.Assert(okStrict, "C14.result-conforms")
	if got != nil {
		verifrt.Cover("C14.coerced-non-null")
	}
}
