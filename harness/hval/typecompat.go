package hval

import (
	"strconv"

	"verifh/verifrt"

	"github.com/vektah/gqlparser/v2/ast"
)

// symType builds a type of symbolic shape: list depth 0..3 (one path each),
// every non-null flag and the innermost name symbolic.
func symType(prefix string) *ast.Type {
	depth := verifrt.Split(verifrt.Int(prefix+".depth", 0, 3))
	t := &ast.Type{NamedType: verifrt.Choice(prefix+".name", "Int", "String"), NonNull: verifrt.Bool(prefix + ".nn0")}
	for i := 1; i <= depth; i++ {
		t = &ast.Type{Elem: t, NonNull: verifrt.Bool(prefix + ".nn" + strconv.Itoa(i))}
	}
	return t
}

// TypeCompat: C08, the type-level unit. (*ast.Type).IsCompatible - what the
// variable-position rule and the interface-argument check of the loader rest
// on - against AreTypesCompatible of the specification (refvalidate.go:
// compatible), on every pair of types up to three list levels.
func TypeCompat() {
	v, l := symType("v"), symType("l")
	verifrt.Show("variable type", v.String())
	verifrt.Show("location type", l.String())
	got := v.IsCompatible(l)
	want := compatible(v, l)
	verifrt.Assert(got == want, "C08.types-compatible-iff-spec")
	if got {
		verifrt.Cover("C08.compatible-pair")
	} else {
		verifrt.Cover("C08.incompatible-pair")
	}
}
