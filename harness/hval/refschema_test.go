package hval

import (
	"os"
	"path/filepath"
	"strings"
	"testing"

	"github.com/vektah/gqlparser/v2/ast"
	"github.com/vektah/gqlparser/v2/parser"
	"github.com/vektah/gqlparser/v2/validator"
	"gopkg.in/yaml.v3"
)

// The repository's own schema corpus through the reference checker: the
// reference and the loader must agree on every schema that parses.
func TestRefSchemaCorpus(t *testing.T) {
	b, err := os.ReadFile("/repo/validator/schema_test.yml")
	if err != nil {
		t.Fatal(err)
	}
	var groups map[string][]struct {
		Name  string
		Input string
	}
	if err := yaml.Unmarshal(b, &groups); err != nil {
		t.Fatal(err)
	}
	var inputs []struct{ name, text string }
	for g, specs := range groups {
		for _, sp := range specs {
			inputs = append(inputs, struct{ name, text string }{g + "/" + sp.Name, sp.Input})
		}
	}
	files, _ := filepath.Glob("/repo/validator/testdata/*.graphql")
	more, _ := filepath.Glob("/repo/formatter/testdata/source/schema/*.graphql")
	for _, f := range append(files, more...) {
		b, _ := os.ReadFile(f)
		inputs = append(inputs, struct{ name, text string }{f, string(b)})
	}
	n, diffs := 0, 0
	for _, in := range inputs {
		pre, _ := parser.ParseSchema(validator.Prelude)
		d, perr := parser.ParseSchema(&ast.Source{Name: "t", Input: in.text})
		if perr != nil {
			continue
		}
		doc := &ast.SchemaDocument{}
		doc.Merge(pre)
		doc.Merge(d)
		ok, why := RefSchemaOK(doc, SLib{})
		_, lerr := validator.ValidateSchemaDocument(doc)
		n++
		if ok != (lerr == nil) {
			diffs++
			t.Errorf("DIFF %s: loader=%v ref=%v\n%s", in.name, lerr, why, strings.TrimSpace(in.text))
		}
	}
	t.Logf("%d schemas, %d differences", n, diffs)
	if n < 60 {
		t.Errorf("corpus too small: %d", n)
	}
}
