package hval

import (
	"verifh/hparse"
	"verifh/verifrt"

	"github.com/vektah/gqlparser/v2/ast"
	"github.com/vektah/gqlparser/v2/gqlerror"
	"github.com/vektah/gqlparser/v2/parser"
	"github.com/vektah/gqlparser/v2/validator"
	"github.com/vektah/gqlparser/v2/validator/rules"
)

// StandardRules: the exported standard rules in registration order (the
// package's files in name order, one init each).
var StandardRules = []validator.Rule{
	rules.FieldsOnCorrectTypeRule, rules.FragmentsOnCompositeTypesRule, rules.KnownArgumentNamesRule, rules.KnownDirectivesRule,
	rules.KnownFragmentNamesRule, rules.KnownRootTypeRule, rules.KnownTypeNamesRule, rules.LoneAnonymousOperationRule,
	rules.MaxIntrospectionDepth, rules.NoFragmentCyclesRule, rules.NoUndefinedVariablesRule, rules.NoUnusedFragmentsRule,
	rules.NoUnusedVariablesRule, rules.OverlappingFieldsCanBeMergedRule, rules.PossibleFragmentSpreadsRule,
	rules.ProvidedRequiredArgumentsRule, rules.ScalarLeafsRule, rules.SingleFieldSubscriptionsRule, rules.UniqueArgumentNamesRule,
	rules.UniqueDirectivesPerLocationRule, rules.UniqueFragmentNamesRule, rules.UniqueInputFieldNamesRule, rules.UniqueOperationNamesRule,
	rules.UniqueVariableNamesRule, rules.ValuesOfCorrectTypeRule, rules.VariablesAreInputTypesRule, rules.VariablesInAllowedPositionRule,
}

// Twins: a standard rule and its variant without suggestions.
var Twins = [][2]validator.Rule{
	{rules.FieldsOnCorrectTypeRule, rules.FieldsOnCorrectTypeRuleWithoutSuggestions},
	{rules.KnownArgumentNamesRule, rules.KnownArgumentNamesRuleWithoutSuggestions},
	{rules.KnownTypeNamesRule, rules.KnownTypeNamesRuleWithoutSuggestions},
	{rules.ValuesOfCorrectTypeRule, rules.ValuesOfCorrectTypeRuleWithoutSuggestions},
}

func errorsOfRule(l gqlerror.List, name string) gqlerror.List {
	var out gqlerror.List
	for _, e := range l {
		if e.Rule == name {
			out = append(out, e)
		}
	}
	return out
}

// onlySuggestionRemoved: with is the standard message, without the twin's; the
// twin's must be a prefix and the remainder empty or a " Did you mean" suffix.
func onlySuggestionRemoved(with, without string) bool {
	if len(with) < len(without) || with[:len(without)] != without {
		return false
	}
	rest := with[len(without):]
	const dym = " Did you mean"
	return rest == "" || (len(rest) >= len(dym) && rest[:len(dym)] == dym)
}

// Compose: C18. One document, validated with the default set, the explicit list
// of all standard rules, every rule alone, and every twin pair.
func Compose() {
	verifrt.SetOpt("merge", 0)
	verifrt.SetOpt("unwind", 200)
	schema := LoadTestSchema(verifrt.Param("schema", 0))
	verifrt.Commit()
	b := &B{}
	Shapes[verifrt.Param("shape", 0)](b)
	parse := func() *ast.QueryDocument {
		src := hparse.Install(b.toks)
		doc, err := parser.ParseQuery(src)
		if err != nil {
			verifrt.Fail("H.shape-does-not-parse")
		}
		return doc
	}
	errsDefault := validator.Validate(schema, parse())
	errsAll := validator.Validate(schema, parse(), StandardRules...)
	verifrt.Assert(sameErrorLists(errsDefault, errsAll), "C18.default-equals-all-rules")
	if len(errsAll) > 0 {
		verifrt.Cover("C18.compared-nonempty-lists")
	}
	total := 0
	for _, r := range StandardRules {
		alone := validator.Validate(schema, parse(), r)
		for _, e := range alone {
			verifrt.Assert(e.Rule == r.Name, "C18.tagged-with-its-rule")
		}
		verifrt.Assert(sameErrorLists(errorsOfRule(errsAll, r.Name), alone), "C18.alone-equals-within-set")
		total += len(alone)
	}
	verifrt.Assert(total == len(errsAll), "C18.set-reports-nothing-else")
	for _, tw := range Twins {
		with := validator.Validate(schema, parse(), tw[0])
		without := validator.Validate(schema, parse(), tw[1])
		verifrt.Assert(len(with) == len(without), "C18.twin-same-number-of-errors")
		if len(with) != len(without) {
			continue
		}
		for i := range with {
			verifrt.Assert(without[i].Rule == tw[1].Name, "C18.tagged-with-its-rule")
			sameLoc := len(with[i].Locations) == len(without[i].Locations)
			if sameLoc {
				for j := range with[i].Locations {
					if with[i].Locations[j] != without[i].Locations[j] {
						sameLoc = false
					}
				}
			}
			verifrt.Assert(sameLoc, "C18.twin-same-locations")
			verifrt.Assert(onlySuggestionRemoved(with[i].Message, without[i].Message), "C18.twin-only-suggestion-removed")
			if len(with[i].Message) > len(without[i].Message) {
				verifrt.Cover("C18.suggestion-removed")
			}
		}
	}
}
