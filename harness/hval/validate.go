package hval

import (
	"sort"

	"verifh/hparse"
	"verifh/verifrt"

	"github.com/vektah/gqlparser/v2/ast"
	"github.com/vektah/gqlparser/v2/gqlerror"
	"github.com/vektah/gqlparser/v2/parser"
	"github.com/vektah/gqlparser/v2/validator"
)

// buildDoc loads the schema (real lexer), then parses the symbolic document
// (stubbed lexer under the engine, rendered text natively).
func buildDoc() (*ast.Schema, *ast.QueryDocument, *ast.Source) {
	schema := LoadTestSchema(verifrt.Param("schema", 0))
	if verifrt.Param("freeze", 0) != 0 {
		verifrt.Freeze()
	} else {
		verifrt.Commit()
	}
	verifrt.SetOpt("merge", 0)
	verifrt.SetOpt("unwind", 200)
	b := &B{}
	Shapes[verifrt.Param("shape", 0)](b)
	src := hparse.Install(b.toks)
	doc, err := parser.ParseQuery(src)
	if err != nil {
		verifrt.Fail("H.shape-does-not-parse")
	}
	return schema, doc, src
}

func attribute(ok, accepted bool, schema *ast.Schema, doc *ast.QueryDocument) {
	if ok == accepted {
		return
	}
	single := false
	try := func(id string, lib VLib) {
		o, _ := RefValid(schema, doc, lib)
		if o == accepted {
			single = true
		}
		verifrt.Known(id, o == accepted)
	}
	try("KF-C08-int-32bit", VLib{IntAny64: true})
	try("KF-C08-repeatable-by-name", VLib{RepeatableByName: true})
	try("KF-C08-list-args-not-compared", VLib{ArgsListsNotCompared: true})
	try("KF-C08-empty-object-for-scalar", VLib{ObjectForLeafOK: true})
	try("KF-C08-leaf-vs-composite", VLib{LeafCompositeNoConflict: true})
	try("KF-C08-arg-default-nullable-var", VLib{ArgDefaultAllowsNullableVar: true})
	try("KF-C08-int-beyond-int64-id-float", VLib{BigIntRejectedForIDFloat: true})
	if !single {
		// several of the listed findings in one document
		o, _ := RefValid(schema, doc, VLib{BigIntRejectedForIDFloat: true, IntAny64: true, RepeatableByName: true, ArgsListsNotCompared: true,
			ObjectForLeafOK: true, LeafCompositeNoConflict: true, ArgDefaultAllowsNullableVar: true})
		verifrt.Known("KF-C08-combination", o == accepted)
	}
}

// ValidateRef: C08 (verdict against the reference), C02 (no panic), C20 (errors well-formed).
func ValidateRef() {
	schema, doc, src := buildDoc()
	errs := validator.Validate(schema, doc)
	ok, _ := RefValid(schema, doc, VLib{})
	verifrt.Watch("lib.errors", len(errs))
	verifrt.Watch("ref.ok", ok)
	attribute(ok, len(errs) == 0, schema, doc)
	verifrt.Assert((len(errs) == 0) == ok, "C08.accepts-iff-valid")
	if len(errs) == 0 {
		verifrt.Cover("C08.accepted")
		// reachability of what the shapes exist for: a valid document that
		// passes a value / a variable to an argument that is not the required one
		if usesArgument(doc, "r") {
			verifrt.Cover("C08.accepted-required-arg")
		} else if hasAnyArgument(doc) {
			verifrt.Cover("C08.accepted-optional-arg")
			if hasVariableUse(doc) {
				verifrt.Cover("C08.accepted-variable-in-optional-arg")
			}
		}
	} else {
		verifrt.Cover("C08.rejected")
	}
	for _, e := range errs {
		wellFormedValidationError(e, src)
	}
}

func wellFormedValidationError(e *gqlerror.Error, src *ast.Source) {
	verifrt.Assert(e != nil, "C20.nil-error")
	if e == nil {
		return
	}
	verifrt.Cover("C20.validation-error")
	verifrt.Assert(len(e.Message) > 0, "C20.message-nonempty")
	verifrt.Assert(e.Rule != "", "C20.rule-named")
	verifrt.Assert(len(e.Locations) >= 1, "C20.has-location")
	for _, l := range e.Locations {
		verifrt.Assert(l.Line >= 1 && l.Column >= 1, "C20.location-positive")
	}
	file, _ := e.Extensions["file"].(string)
	verifrt.Assert(file == src.Name, "C20.file")
	verifrt.Assert(len(e.Error()) > 0, "C20.error-string")
}

func eachField(set ast.SelectionSet, f func(*ast.Field)) {
	for _, s := range set {
		switch x := s.(type) {
		case *ast.Field:
			f(x)
			eachField(x.SelectionSet, f)
		case *ast.InlineFragment:
			eachField(x.SelectionSet, f)
		}
	}
}

func usesArgument(doc *ast.QueryDocument, name string) bool {
	found := false
	for _, op := range doc.Operations {
		eachField(op.SelectionSet, func(fl *ast.Field) {
			for _, a := range fl.Arguments {
				if a.Name == name {
					found = true
				}
			}
		})
	}
	return found
}

func hasAnyArgument(doc *ast.QueryDocument) bool {
	found := false
	for _, op := range doc.Operations {
		eachField(op.SelectionSet, func(fl *ast.Field) {
			if len(fl.Arguments) > 0 {
				found = true
			}
		})
	}
	return found
}

func valueHasVariable(v *ast.Value) bool {
	if v == nil {
		return false
	}
	if v.Kind == ast.Variable {
		return true
	}
	for _, c := range v.Children {
		if valueHasVariable(c.Value) {
			return true
		}
	}
	return false
}

func hasVariableUse(doc *ast.QueryDocument) bool {
	found := false
	for _, op := range doc.Operations {
		eachField(op.SelectionSet, func(fl *ast.Field) {
			for _, a := range fl.Arguments {
				if valueHasVariable(a.Value) {
					found = true
				}
			}
		})
	}
	return found
}

// SchemaReadOnly: C11 reduced to a per-call safety property. The schema is
// loaded, then frozen; Validate with all rules runs on the symbolic document.
// Under the engine any store into a frozen object (schema definitions, package
// level state) is reported as "frozen-write". Natively the schema is dumped
// before and after and compared.
func SchemaReadOnly() {
	verifrt.SetOpt("merge", 0)
	verifrt.SetOpt("unwind", 200)
	schema := LoadTestSchema(verifrt.Param("schema", 0))
	before := ""
	if verifrt.Native() {
		before = dumpSchema(schema)
	}
	verifrt.Freeze()
	b := &B{}
	Shapes[verifrt.Param("shape", 0)](b)
	src := hparse.Install(b.toks)
	doc, err := parser.ParseQuery(src)
	if err != nil {
		verifrt.Fail("H.shape-does-not-parse")
	}
	errs := validator.Validate(schema, doc)
	if len(errs) == 0 {
		verifrt.Cover("C11.validated-ok")
	} else {
		verifrt.Cover("C11.validated-with-errors")
	}
	if verifrt.Native() {
		verifrt.Assert(dumpSchema(schema) == before, "C11.schema-unchanged")
	}
}

// dumpSchema renders everything reachable from the schema (native only).
func dumpSchema(s *ast.Schema) string {
	var names []string
	for n := range s.Types {
		names = append(names, n)
	}
	sort.Strings(names)
	out := ""
	for _, n := range names {
		out += ast.Dump(s.Types[n]) + "\n"
		for _, p := range s.PossibleTypes[n] {
			out += " possible:" + p.Name
		}
		for _, p := range s.Implements[n] {
			out += " implements:" + p.Name
		}
	}
	var dn []string
	for n := range s.Directives {
		dn = append(dn, n)
	}
	sort.Strings(dn)
	for _, n := range dn {
		out += ast.Dump(s.Directives[n]) + "\n"
	}
	return out
}

func sameErrorLists(a, b gqlerror.List) bool {
	if len(a) != len(b) {
		return false
	}
	for i := range a {
		if a[i].Rule != b[i].Rule || a[i].Message != b[i].Message || len(a[i].Locations) != len(b[i].Locations) {
			return false
		}
		for j := range a[i].Locations {
			if a[i].Locations[j] != b[i].Locations[j] {
				return false
			}
		}
	}
	return true
}

// Deterministic: C10. The same document is validated (a) twice as the same
// tree, (b) as fresh parses in the same run, and (c) as fresh parses while
// every `range` over a map visits its entries in another order (three order
// policies under the engine; natively Go's own randomised order, 40 runs).
func Deterministic() {
	verifrt.SetOpt("merge", 0)
	verifrt.SetOpt("unwind", 200)
	schema := LoadTestSchema(verifrt.Param("schema", 0))
	verifrt.Commit()
	b := &B{}
	Shapes[verifrt.Param("shape", 0)](b)
	parse := func() *ast.QueryDocument {
		src := hparse.Install(b.toks)
		doc, err := parser.ParseQuery(src)
		if err != nil {
			verifrt.Fail("H.shape-does-not-parse")
		}
		return doc
	}
	docA := parse()
	errsA := validator.Validate(schema, docA)
	errsA2 := validator.Validate(schema, docA)
	verifrt.Assert(sameErrorLists(errsA, errsA2), "C10.same-tree-again")
	errsB := validator.Validate(schema, parse())
	verifrt.Assert(sameErrorLists(errsA, errsB), "C10.fresh-parse-same-process")
	if len(errsA) > 0 {
		verifrt.Cover("C10.compared-nonempty-lists")
	}
	if verifrt.Native() {
		same := true
		for i := 0; i < 40; i++ {
			if !sameErrorLists(errsA, validator.Validate(schema, parse())) {
				same = false
			}
		}
		verifrt.Assert(same, "C10.map-order-independent")
		return
	}
	for policy := 1; policy <= 3; policy++ {
		verifrt.SetOpt("maporder", policy)
		errsP := validator.Validate(schema, parse())
		verifrt.SetOpt("maporder", 0)
		verifrt.Assert(sameErrorLists(errsA, errsP), "C10.map-order-independent")
	}
}
