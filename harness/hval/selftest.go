package hval

import "verifh/verifrt"

// SplitGapSelfTest exists to check the engine's case-split accounting: value 2
// of z is assumed away before the split, so the run must come back undecided
// with the gap "z=2" (it is not a check of the library).
func SplitGapSelfTest() {
	z := verifrt.Int("z", 0, 3)
	verifrt.Assume(z != 2)
	z = verifrt.Split(z)
	verifrt.Assert(z != 2, "H.unreachable")
}
