package hval

import "verifh/verifrt"

// SplitGapSelfTest exists to check the engine's case-split accounting: value 2
// of z is assumed away before the split, so the run must come back undecided
// with the gap "z=2" (it is not a check of the library).
func SplitGapSelfTest() {
	z := verifrt.Int("z", 0, 3)
	verifrt.Assume(z != 2)
	z = verifrt.Split(z)
	verifrt.Assert(z != 2, "H.unreachable")
}

// FrozenWriteSelfTest is the positive control of the C11 detector: after the
// schema is frozen, the harness itself writes into a schema definition. The
// engine must report a frozen write and the native snapshot comparison must fail.
func FrozenWriteSelfTest() {
	schema := LoadTestSchema(1)
	before := ""
	if verifrt.Native() {
		before = dumpSchema(schema)
	}
	verifrt.Freeze()
	schema.Types["Obj"].Description = "written after freeze"
	if verifrt.Native() {
		verifrt.Assert(dumpSchema(schema) == before, "C11.schema-unchanged")
	}
}
