package hval

// Reference validator: section 5 of the specification (October 2021, plus
// @oneOf input objects and the introspection-depth limit the library adds),
// written against the parsed tree and the loaded schema's definitions. It does
// not read the links the library's walker writes into the tree.

import (
	"strconv"
	"strings"

	"github.com/vektah/gqlparser/v2/ast"
)

// VLib are single, named departures from the specification, used only to
// attribute a disagreement to a listed finding.
type VLib struct {
	IntAny64                    bool // Int literals need only fit 64 bits
	RepeatableByName            bool // only a directive literally named "repeatable" may repeat
	ArgsListsNotCompared        bool // list/object argument values are compared by kind and raw text only
	ObjectForLeafOK             bool // an object literal without fields passes for any non-input-object type
	LeafCompositeNoConflict     bool // a leaf and a composite with the same response name do not conflict
	ArgDefaultAllowsNullableVar bool // (the reverse of a finding: an argument default does not help a nullable variable)
	OneOfVarUnchecked           bool // nullable variables inside oneOf objects are not reported
	EnumCaseInsensitive         bool
	BigIntRejectedForIDFloat    bool // an integer literal outside int64 is rejected at ID and Float positions
}

type RV struct {
	s      *ast.Schema
	doc    *ast.QueryDocument
	lib    VLib
	Why    []string
	frags  map[string]*ast.FragmentDefinition
	curOp  *ast.OperationDefinition
	used   map[string]bool // variables used in the current operation
	usedFr map[string]bool
	// memo for the merge check (cyclic fragments): a revisited field or pair is assumed fine
	doneField map[*ast.Field]bool
	donePair  map[[2]*ast.Field]bool
}

func (v *RV) fail(why string) { v.Why = append(v.Why, why) }

// RefValid reports whether doc satisfies every validation rule against s.
func RefValid(s *ast.Schema, doc *ast.QueryDocument, lib VLib) (bool, []string) {
	v := &RV{s: s, doc: doc, lib: lib, frags: map[string]*ast.FragmentDefinition{}, doneField: map[*ast.Field]bool{}, donePair: map[[2]*ast.Field]bool{}}
	v.run()
	return len(v.Why) == 0, v.Why
}

func (v *RV) typ(name string) *ast.Definition {
	if name == "" {
		return nil
	}
	return v.s.Types[name]
}

func isComposite(d *ast.Definition) bool {
	return d != nil && (d.Kind == ast.Object || d.Kind == ast.Interface || d.Kind == ast.Union)
}
func isLeaf(d *ast.Definition) bool { return d != nil && (d.Kind == ast.Scalar || d.Kind == ast.Enum) }
func isInput(d *ast.Definition) bool {
	return d != nil && (d.Kind == ast.Scalar || d.Kind == ast.Enum || d.Kind == ast.InputObject)
}

func (v *RV) run() {
	// 5.2.1.1 operation name uniqueness, 5.2.2.1 lone anonymous operation
	names := map[string]bool{}
	anon := 0
	for _, op := range v.doc.Operations {
		if op.Name == "" {
			anon++
			continue
		}
		if names[op.Name] {
			v.fail("UniqueOperationNames")
		}
		names[op.Name] = true
	}
	if anon > 0 && len(v.doc.Operations) > 1 {
		v.fail("LoneAnonymousOperation")
	}
	// 5.5.1.1 fragment name uniqueness
	for _, f := range v.doc.Fragments {
		if _, dup := v.frags[f.Name]; dup {
			v.fail("UniqueFragmentNames")
			continue
		}
		v.frags[f.Name] = f
	}
	v.usedFr = map[string]bool{}
	for _, op := range v.doc.Operations {
		v.operation(op)
	}
	for _, f := range v.doc.Fragments {
		v.fragmentDefinition(f)
	}
	// 5.5.1.4 fragments must be used (reachable from an operation)
	for _, f := range v.doc.Fragments {
		if !v.usedFr[f.Name] {
			v.fail("NoUnusedFragments")
		}
	}
	// 5.5.2.2 no cycles
	for _, f := range v.doc.Fragments {
		if v.reaches(f, f.Name, map[string]bool{}) {
			v.fail("NoFragmentCycles")
			break
		}
	}
}

// reaches: does fragment f spread (transitively) a fragment named target?
func (v *RV) reaches(f *ast.FragmentDefinition, target string, seen map[string]bool) bool {
	if seen[f.Name] {
		return false
	}
	seen[f.Name] = true
	for _, n := range spreadNames(f.SelectionSet) {
		if n == target {
			return true
		}
		if g, ok := v.frags[n]; ok && v.reaches(g, target, seen) {
			return true
		}
	}
	return false
}

func spreadNames(set ast.SelectionSet) []string {
	var out []string
	for _, s := range set {
		switch x := s.(type) {
		case *ast.Field:
			out = append(out, spreadNames(x.SelectionSet)...)
		case *ast.InlineFragment:
			out = append(out, spreadNames(x.SelectionSet)...)
		case *ast.FragmentSpread:
			out = append(out, x.Name)
		}
	}
	return out
}

func (v *RV) rootOf(op *ast.OperationDefinition) *ast.Definition {
	switch op.Operation {
	case ast.Mutation:
		return v.s.Mutation
	case ast.Subscription:
		return v.s.Subscription
	}
	return v.s.Query
}

func (v *RV) operation(op *ast.OperationDefinition) {
	v.curOp = op
	v.used = map[string]bool{}
	root := v.rootOf(op)
	if root == nil {
		v.fail("KnownRootType")
	}
	// 5.8.1 variable uniqueness, 5.8.2 variables are input types
	seen := map[string]bool{}
	for _, vd := range op.VariableDefinitions {
		if seen[vd.Variable] {
			v.fail("UniqueVariableNames")
		}
		seen[vd.Variable] = true
		td := v.typ(vd.Type.Name())
		if td == nil {
			v.fail("KnownTypeNames")
		} else if !isInput(td) {
			v.fail("VariablesAreInputTypes")
		}
		if vd.DefaultValue != nil && td != nil {
			v.value(vd.DefaultValue, vd.Type, true)
		}
		v.directives(vd.Directives, ast.LocationVariableDefinition)
	}
	loc := ast.LocationQuery
	if op.Operation == ast.Mutation {
		loc = ast.LocationMutation
	} else if op.Operation == ast.Subscription {
		loc = ast.LocationSubscription
	}
	v.directives(op.Directives, loc)
	v.selectionSet(root, op.SelectionSet, map[string]bool{})
	// 5.3.2 field selection merging, from the operation's root set
	if !v.canMerge(v.collect(root, op.SelectionSet, map[string]bool{}), map[string]bool{}) {
		v.fail("OverlappingFieldsCanBeMerged")
	}
	// 5.8.4 all variables used
	for _, vd := range op.VariableDefinitions {
		if !v.used[vd.Variable] {
			v.fail("NoUnusedVariables")
		}
	}
	// 5.2.3.1 single root field
	if op.Operation == ast.Subscription && root != nil {
		top := map[string]bool{}
		v.topFields(op.SelectionSet, top, map[string]bool{})
		if len(top) > 1 {
			v.fail("SingleFieldSubscriptions")
		}
		for n := range top {
			if strings.HasPrefix(n, "__") {
				v.fail("SingleFieldSubscriptions")
			}
		}
	}
	v.curOp = nil
}

func (v *RV) topFields(set ast.SelectionSet, out map[string]bool, seen map[string]bool) {
	for _, s := range set {
		switch x := s.(type) {
		case *ast.Field:
			out[x.Name] = true
		case *ast.InlineFragment:
			v.topFields(x.SelectionSet, out, seen)
		case *ast.FragmentSpread:
			if f, ok := v.frags[x.Name]; ok && !seen[x.Name] {
				seen[x.Name] = true
				v.topFields(f.SelectionSet, out, seen)
			}
		}
	}
}

// fragmentDefinition checks what is independent of the spreading operation.
func (v *RV) fragmentDefinition(f *ast.FragmentDefinition) {
	td := v.typ(f.TypeCondition)
	if td == nil {
		v.fail("KnownTypeNames")
	} else if !isComposite(td) {
		v.fail("FragmentsOnCompositeTypes")
	}
	v.directives(f.Directives, ast.LocationFragmentDefinition)
	if !isComposite(td) {
		td = nil
	}
	v.selectionSet(td, f.SelectionSet, map[string]bool{f.Name: true})
	if !v.canMerge(v.collect(td, f.SelectionSet, map[string]bool{f.Name: true}), map[string]bool{}) {
		v.fail("OverlappingFieldsCanBeMerged")
	}
}

func fieldDef(parent *ast.Definition, name string) *ast.FieldDefinition {
	if name == "__typename" {
		return &ast.FieldDefinition{Name: name, Type: ast.NonNullNamedType("String", nil)}
	}
	if parent == nil {
		return nil
	}
	for _, f := range parent.Fields {
		if f.Name == name {
			return f
		}
	}
	return nil
}

// selectionSet validates a set against its parent type (nil: unknown). inFrag
// holds the fragments being expanded (variables in fragments are checked per
// operation, once per fragment).
func (v *RV) selectionSet(parent *ast.Definition, set ast.SelectionSet, inFrag map[string]bool) {
	for _, s := range set {
		switch x := s.(type) {
		case *ast.Field:
			v.field(parent, x, inFrag)
		case *ast.InlineFragment:
			next := parent
			if x.TypeCondition != "" {
				td := v.typ(x.TypeCondition)
				switch {
				case td == nil:
					v.fail("KnownTypeNames")
					next = nil
				case !isComposite(td):
					v.fail("FragmentsOnCompositeTypes")
					next = nil
				default:
					if parent != nil && !v.overlap(parent, td) {
						v.fail("PossibleFragmentSpreads")
					}
					next = td
				}
			}
			v.directives(x.Directives, ast.LocationInlineFragment)
			v.selectionSet(next, x.SelectionSet, inFrag)
		case *ast.FragmentSpread:
			v.directives(x.Directives, ast.LocationFragmentSpread)
			f, ok := v.frags[x.Name]
			if !ok {
				v.fail("KnownFragmentNames")
				continue
			}
			td := v.typ(f.TypeCondition)
			if parent != nil && isComposite(td) && !v.overlap(parent, td) {
				v.fail("PossibleFragmentSpreads")
			}
			if v.curOp != nil {
				v.usedFr[x.Name] = true
				if !inFrag[x.Name] {
					inFrag[x.Name] = true
					// variable uses inside the fragment count for this operation
					if !isComposite(td) {
						td = nil
					}
					v.selectionSet(td, f.SelectionSet, inFrag)
				}
			}
		}
	}
}

func (v *RV) possible(d *ast.Definition) map[string]bool {
	out := map[string]bool{}
	switch d.Kind {
	case ast.Object:
		out[d.Name] = true
	case ast.Union:
		for _, m := range d.Types {
			out[m] = true
		}
	case ast.Interface:
		for _, t := range v.s.Types {
			if t.Kind != ast.Object {
				continue
			}
			for _, i := range t.Interfaces {
				if i == d.Name {
					out[t.Name] = true
				}
			}
		}
	}
	return out
}

func (v *RV) overlap(a, b *ast.Definition) bool {
	if !isComposite(a) || !isComposite(b) {
		return true
	}
	pb := v.possible(b)
	for n := range v.possible(a) {
		if pb[n] {
			return true
		}
	}
	return false
}

func (v *RV) field(parent *ast.Definition, f *ast.Field, inFrag map[string]bool) {
	fd := fieldDef(parent, f.Name)
	if parent != nil && fd == nil {
		v.fail("FieldsOnCorrectType")
	}
	if parent != nil && f.Name == "__typename" && !isComposite(parent) {
		v.fail("FieldsOnCorrectType")
	}
	var argDefs ast.ArgumentDefinitionList
	if fd != nil {
		argDefs = fd.Arguments
	}
	v.arguments(f.Arguments, argDefs, fd != nil)
	v.directives(f.Directives, ast.LocationField)
	var next *ast.Definition
	if fd != nil {
		td := v.typ(fd.Type.Name())
		if td != nil {
			if isLeaf(td) && len(f.SelectionSet) > 0 {
				v.fail("ScalarLeafs")
			}
			if !isLeaf(td) && len(f.SelectionSet) == 0 {
				v.fail("ScalarLeafs")
			}
			if isComposite(td) {
				next = td
			}
		}
	}
	if (f.Name == "__schema" || f.Name == "__type") && v.introspectionTooDeep(f, 0, map[string]bool{}) {
		v.fail("MaxIntrospectionDepth")
	}
	v.selectionSet(next, f.SelectionSet, inFrag)
}

func (v *RV) introspectionTooDeep(f *ast.Field, depth int, seen map[string]bool) bool {
	switch f.Name {
	case "fields", "interfaces", "possibleTypes", "inputFields":
		depth++
		if depth >= 3 {
			return true
		}
	}
	return v.introSet(f.SelectionSet, depth, seen)
}

func (v *RV) introSet(set ast.SelectionSet, depth int, seen map[string]bool) bool {
	for _, s := range set {
		switch x := s.(type) {
		case *ast.Field:
			if v.introspectionTooDeep(x, depth, seen) {
				return true
			}
		case *ast.InlineFragment:
			if v.introSet(x.SelectionSet, depth, seen) {
				return true
			}
		case *ast.FragmentSpread:
			if fr, ok := v.frags[x.Name]; ok && !seen[x.Name] {
				seen[x.Name] = true
				r := v.introSet(fr.SelectionSet, depth, seen)
				delete(seen, x.Name)
				if r {
					return true
				}
			}
		}
	}
	return false
}

func (v *RV) arguments(args ast.ArgumentList, defs ast.ArgumentDefinitionList, known bool) {
	seen := map[string]bool{}
	for _, a := range args {
		if seen[a.Name] {
			v.fail("UniqueArgumentNames")
		}
		seen[a.Name] = true
		var ad *ast.ArgumentDefinition
		for _, d := range defs {
			if d.Name == a.Name {
				ad = d
			}
		}
		if ad == nil {
			if known {
				v.fail("KnownArgumentNames")
			}
			v.markVars(a.Value)
			continue
		}
		v.valueAt(a.Value, ad.Type, ad.DefaultValue != nil)
	}
	if known {
		for _, d := range defs {
			if d.Type.NonNull && d.DefaultValue == nil && !seen[d.Name] {
				v.fail("ProvidedRequiredArguments")
			}
		}
	}
}

// markVars records variable uses in a value whose expected type is unknown.
func (v *RV) markVars(val *ast.Value) {
	if val == nil {
		return
	}
	if val.Kind == ast.Variable {
		v.useVar(val.Raw)
	}
	for _, c := range val.Children {
		v.markVars(c.Value)
	}
	if val.Kind == ast.ObjectValue {
		v.uniqueInputFields(val)
	}
}

func (v *RV) uniqueInputFields(val *ast.Value) {
	seen := map[string]bool{}
	for _, c := range val.Children {
		if seen[c.Name] {
			v.fail("UniqueInputFieldNames")
		}
		seen[c.Name] = true
	}
}

func (v *RV) useVar(name string) *ast.VariableDefinition {
	if v.curOp == nil {
		return nil
	}
	v.used[name] = true
	for _, vd := range v.curOp.VariableDefinitions {
		if vd.Variable == name {
			return vd
		}
	}
	v.fail("NoUndefinedVariables")
	return nil
}

func (v *RV) directives(ds ast.DirectiveList, loc ast.DirectiveLocation) {
	seen := map[string]bool{}
	for _, d := range ds {
		def := v.s.Directives[d.Name]
		if def == nil {
			v.fail("KnownDirectives")
			for _, a := range d.Arguments {
				v.markVars(a.Value)
			}
		} else {
			okLoc := false
			for _, l := range def.Locations {
				if l == loc {
					okLoc = true
				}
			}
			if !okLoc {
				v.fail("KnownDirectives")
			}
			v.arguments(d.Arguments, def.Arguments, true)
		}
		repeatable := def != nil && def.IsRepeatable
		if v.lib.RepeatableByName {
			repeatable = d.Name == "repeatable"
		}
		if seen[d.Name] && !repeatable {
			v.fail("UniqueDirectivesPerLocation")
		}
		seen[d.Name] = true
	}
}

// valueAt: a value in an argument / input field position (variables allowed).
func (v *RV) valueAt(val *ast.Value, t *ast.Type, locHasDefault bool) {
	if val == nil {
		return
	}
	if val.Kind == ast.Variable {
		vd := v.useVar(val.Raw)
		if vd != nil && v.typ(vd.Type.Name()) != nil {
			if !v.varAllowed(vd, t, locHasDefault) {
				v.fail("VariablesInAllowedPosition")
			}
		}
		return
	}
	v.value(val, t, false)
}

// 5.8.5
func (v *RV) varAllowed(vd *ast.VariableDefinition, loc *ast.Type, locHasDefault bool) bool {
	if loc.NonNull && !vd.Type.NonNull {
		hasNonNullVarDefault := vd.DefaultValue != nil && vd.DefaultValue.Kind != ast.NullValue
		if !hasNonNullVarDefault && !(locHasDefault && !v.lib.ArgDefaultAllowsNullableVar) {
			return false
		}
		nl := *loc
		nl.NonNull = false
		return compatible(vd.Type, &nl)
	}
	return compatible(vd.Type, loc)
}

func compatible(vt, lt *ast.Type) bool {
	if lt.NonNull {
		if !vt.NonNull {
			return false
		}
		a, b := *vt, *lt
		a.NonNull, b.NonNull = false, false
		return compatible(&a, &b)
	}
	if vt.NonNull {
		a := *vt
		a.NonNull = false
		return compatible(&a, lt)
	}
	if lt.Elem != nil {
		if vt.Elem == nil {
			return false
		}
		return compatible(vt.Elem, lt.Elem)
	}
	if vt.Elem != nil {
		return false
	}
	return vt.NamedType == lt.NamedType
}

// value: literal coercion (5.6.1 and the input coercion rules of section 3).
func (v *RV) value(val *ast.Value, t *ast.Type, isConst bool) {
	if val == nil {
		return
	}
	if val.Kind == ast.Variable {
		if isConst {
			return
		}
		v.valueAt(val, t, false)
		return
	}
	if val.Kind == ast.NullValue {
		if t.NonNull {
			v.fail("ValuesOfCorrectType")
		}
		return
	}
	if t.Elem != nil {
		if val.Kind == ast.ListValue {
			for _, c := range val.Children {
				v.valueItem(c.Value, t.Elem, isConst)
			}
			return
		}
		// a single value is coerced to a list of one
		v.valueItem(val, t.Elem, isConst)
		return
	}
	td := v.typ(t.NamedType)
	if td == nil {
		v.markVars(val)
		return
	}
	bad := func() { v.fail("ValuesOfCorrectType") }
	switch td.Kind {
	case ast.InputObject:
		if val.Kind != ast.ObjectValue {
			bad()
			v.markVars(val)
			return
		}
		v.uniqueInputFields(val)
		provided := map[string]bool{}
		for _, c := range val.Children {
			provided[c.Name] = true
			var fd *ast.FieldDefinition
			for _, f := range td.Fields {
				if f.Name == c.Name {
					fd = f
				}
			}
			if fd == nil {
				bad()
				v.markVars(c.Value)
				continue
			}
			if isConst {
				v.value(c.Value, fd.Type, true)
			} else {
				v.valueAt(c.Value, fd.Type, fd.DefaultValue != nil)
			}
		}
		for _, f := range td.Fields {
			if f.Type.NonNull && f.DefaultValue == nil && !provided[f.Name] {
				bad()
			}
		}
		if td.Directives.ForName("oneOf") != nil {
			if len(val.Children) != 1 {
				bad()
			} else {
				c := val.Children[0].Value
				if c == nil || c.Kind == ast.NullValue {
					bad()
				} else if c.Kind == ast.Variable && v.curOp != nil && !v.lib.OneOfVarUnchecked {
					for _, vd := range v.curOp.VariableDefinitions {
						if vd.Variable == c.Raw && !vd.Type.NonNull {
							bad()
						}
					}
				}
			}
		}
	case ast.Enum:
		if val.Kind != ast.EnumValue {
			if !(v.lib.ObjectForLeafOK && val.Kind == ast.ObjectValue && len(val.Children) == 0) {
				bad()
			}
			v.markVars(val)
			return
		}
		found := false
		for _, e := range td.EnumValues {
			if e.Name == val.Raw {
				found = true
			}
		}
		if !found {
			bad()
		}
	case ast.Scalar:
		if val.Kind == ast.ObjectValue || val.Kind == ast.ListValue {
			v.markVars(val)
		}
		switch td.Name {
		case "Int":
			if val.Kind != ast.IntValue {
				if !(v.lib.ObjectForLeafOK && val.Kind == ast.ObjectValue && len(val.Children) == 0) {
					bad()
				}
				return
			}
			bits := 32
			if v.lib.IntAny64 {
				bits = 64
			}
			if _, err := strconv.ParseInt(val.Raw, 10, bits); err != nil {
				bad()
			}
		case "Float":
			if val.Kind == ast.IntValue && v.lib.BigIntRejectedForIDFloat {
				if _, err := strconv.ParseInt(val.Raw, 10, 64); err != nil {
					bad()
				}
			}
			if val.Kind != ast.IntValue && val.Kind != ast.FloatValue {
				if !(v.lib.ObjectForLeafOK && val.Kind == ast.ObjectValue && len(val.Children) == 0) {
					bad()
				}
			}
		case "String":
			if val.Kind != ast.StringValue && val.Kind != ast.BlockValue {
				if !(v.lib.ObjectForLeafOK && val.Kind == ast.ObjectValue && len(val.Children) == 0) {
					bad()
				}
			}
		case "Boolean":
			if val.Kind != ast.BooleanValue {
				if !(v.lib.ObjectForLeafOK && val.Kind == ast.ObjectValue && len(val.Children) == 0) {
					bad()
				}
			}
		case "ID":
			if val.Kind == ast.IntValue && v.lib.BigIntRejectedForIDFloat {
				if _, err := strconv.ParseInt(val.Raw, 10, 64); err != nil {
					bad()
				}
			}
			if val.Kind != ast.StringValue && val.Kind != ast.BlockValue && val.Kind != ast.IntValue {
				if !(v.lib.ObjectForLeafOK && val.Kind == ast.ObjectValue && len(val.Children) == 0) {
					bad()
				}
			}
		default:
			// custom scalars accept any literal
		}
	default:
		bad() // an output type in input position cannot happen in a loaded schema
	}
}

func (v *RV) valueItem(val *ast.Value, t *ast.Type, isConst bool) {
	if isConst {
		v.value(val, t, true)
	} else {
		v.valueAt(val, t, false)
	}
}

// ---------- 5.3.2 field selection merging ----------

type cField struct {
	f      *ast.Field
	parent *ast.Definition // nil: unknown
	def    *ast.FieldDefinition
}

// collect gathers the fields of a selection set by response name, looking
// through inline fragments and fragment spreads.
func (v *RV) collect(parent *ast.Definition, set ast.SelectionSet, seen map[string]bool) map[string][]cField {
	out := map[string][]cField{}
	v.collectInto(out, parent, set, seen)
	return out
}

func (v *RV) collectInto(out map[string][]cField, parent *ast.Definition, set ast.SelectionSet, seen map[string]bool) {
	for _, s := range set {
		switch x := s.(type) {
		case *ast.Field:
			out[x.Alias] = append(out[x.Alias], cField{x, parent, fieldDef(parent, x.Name)})
		case *ast.InlineFragment:
			p := parent
			if x.TypeCondition != "" {
				p = v.typ(x.TypeCondition)
				if !isComposite(p) {
					p = nil
				}
			}
			v.collectInto(out, p, x.SelectionSet, seen)
		case *ast.FragmentSpread:
			if f, ok := v.frags[x.Name]; ok && !seen[x.Name] {
				seen[x.Name] = true
				p := v.typ(f.TypeCondition)
				if !isComposite(p) {
					p = nil
				}
				v.collectInto(out, p, f.SelectionSet, seen)
			}
		}
	}
}

func (v *RV) canMerge(byName map[string][]cField, visiting map[string]bool) bool {
	for _, fs := range byName {
		for i := 0; i < len(fs); i++ {
			for j := i + 1; j < len(fs); j++ {
				if !v.pairOK(fs[i], fs[j], true) {
					return false
				}
			}
		}
	}
	// sub-selections of each single field must merge on their own as well
	for _, fs := range byName {
		for _, a := range fs {
			if len(a.f.SelectionSet) == 0 || v.doneField[a.f] {
				continue
			}
			v.doneField[a.f] = true
			sub := v.collect(v.subParent(a), a.f.SelectionSet, map[string]bool{})
			if !v.canMerge(sub, visiting) {
				return false
			}
		}
	}
	return true
}

func (v *RV) subParent(a cField) *ast.Definition {
	if a.def == nil {
		return nil
	}
	td := v.typ(a.def.Type.Name())
	if !isComposite(td) {
		return nil
	}
	return td
}

// pairOK: FieldsInSetCanMerge for one pair (same response name).
func (v *RV) pairOK(a, b cField, checkIdentity bool) bool {
	if a.f == b.f {
		return true
	}
	if v.donePair[[2]*ast.Field{a.f, b.f}] {
		return true
	}
	v.donePair[[2]*ast.Field{a.f, b.f}] = true
	if !v.sameShape(a, b) {
		return false
	}
	mutuallyExclusive := a.parent != nil && b.parent != nil && a.parent != b.parent &&
		a.parent.Kind == ast.Object && b.parent.Kind == ast.Object
	if !mutuallyExclusive {
		if a.f.Name != b.f.Name {
			return false
		}
		if !v.sameArgs(a.f.Arguments, b.f.Arguments) {
			return false
		}
	}
	// merged sub-selections
	merged := map[string][]cField{}
	v.collectInto(merged, v.subParent(a), a.f.SelectionSet, map[string]bool{})
	v.collectInto(merged, v.subParent(b), b.f.SelectionSet, map[string]bool{})
	for _, fs := range merged {
		for i := 0; i < len(fs); i++ {
			for j := i + 1; j < len(fs); j++ {
				if mutuallyExclusive {
					if !v.sameShapeDeep(fs[i], fs[j]) {
						return false
					}
				} else if !v.pairOK(fs[i], fs[j], true) {
					return false
				}
			}
		}
	}
	return true
}

// sameShapeDeep: SameResponseShape including sub-selections (used once parents
// are known to be mutually exclusive).
func (v *RV) sameShapeDeep(a, b cField) bool {
	if a.f == b.f {
		return true
	}
	if v.donePair[[2]*ast.Field{b.f, a.f}] {
		return true
	}
	v.donePair[[2]*ast.Field{b.f, a.f}] = true
	if !v.sameShape(a, b) {
		return false
	}
	merged := map[string][]cField{}
	v.collectInto(merged, v.subParent(a), a.f.SelectionSet, map[string]bool{})
	v.collectInto(merged, v.subParent(b), b.f.SelectionSet, map[string]bool{})
	for _, fs := range merged {
		for i := 0; i < len(fs); i++ {
			for j := i + 1; j < len(fs); j++ {
				if !v.sameShapeDeep(fs[i], fs[j]) {
					return false
				}
			}
		}
	}
	return true
}

func (v *RV) sameShape(a, b cField) bool {
	if a.def == nil || b.def == nil {
		return true // unknown fields are reported elsewhere
	}
	ta, tb := a.def.Type, b.def.Type
	for {
		if ta.NonNull != tb.NonNull {
			return false
		}
		if (ta.Elem != nil) != (tb.Elem != nil) {
			return false
		}
		if ta.Elem == nil {
			break
		}
		ta, tb = ta.Elem, tb.Elem
	}
	da, db := v.typ(ta.NamedType), v.typ(tb.NamedType)
	if da == nil || db == nil {
		return true
	}
	if isLeaf(da) || isLeaf(db) {
		if v.lib.LeafCompositeNoConflict && isLeaf(da) != isLeaf(db) {
			return true
		}
		return da == db
	}
	return true
}

func (v *RV) sameArgs(a, b ast.ArgumentList) bool {
	if len(a) != len(b) {
		return false
	}
	for _, x := range a {
		var y *ast.Argument
		for _, c := range b {
			if c.Name == x.Name {
				y = c
			}
		}
		if y == nil || !v.sameValue(x.Value, y.Value) {
			return false
		}
	}
	return true
}

func (v *RV) sameValue(a, b *ast.Value) bool {
	if a == nil || b == nil {
		return a == b
	}
	if a.Kind != b.Kind || a.Raw != b.Raw {
		return false
	}
	if v.lib.ArgsListsNotCompared {
		return true
	}
	if len(a.Children) != len(b.Children) {
		return false
	}
	if a.Kind == ast.ObjectValue {
		for _, x := range a.Children {
			var y *ast.ChildValue
			for _, c := range b.Children {
				if c.Name == x.Name {
					y = c
				}
			}
			if y == nil || !v.sameValue(x.Value, y.Value) {
				return false
			}
		}
		return true
	}
	for i := range a.Children {
		if !v.sameValue(a.Children[i].Value, b.Children[i].Value) {
			return false
		}
	}
	return true
}
