package hval

import (
	"verifh/verifrt"

	"github.com/vektah/gqlparser/v2/ast"
	"github.com/vektah/gqlparser/v2/validator"
)

// Links: C09. On documents that pass validation every link the walker leaves
// on the tree is compared - by identity with the schema's own objects - with
// what a resolver written here from the specification's notion of parent type
// computes.
func Links() {
	schema, doc, _ := buildDoc()
	errs := validator.Validate(schema, doc)
	if len(errs) > 0 {
		verifrt.Cover("C09.rejected-not-checked")
		return
	}
	verifrt.Cover("C09.accepted")
	lk := &linkChecker{s: schema, doc: doc}
	for _, op := range doc.Operations {
		lk.op = op
		root := schema.Query
		loc := ast.LocationQuery
		switch op.Operation {
		case ast.Mutation:
			root, loc = schema.Mutation, ast.LocationMutation
		case ast.Subscription:
			root, loc = schema.Subscription, ast.LocationSubscription
		}
		for _, vd := range op.VariableDefinitions {
			verifrt.Assert(vd.Definition != nil && vd.Definition == schema.Types[vd.Type.Name()], "C09.variable-definition-type")
			if vd.DefaultValue != nil {
				lk.value(vd.DefaultValue, vd.Type)
			}
			lk.directives(vd.Directives, ast.LocationVariableDefinition, vd.Definition)
		}
		lk.directives(op.Directives, loc, root)
		lk.selectionSet(root, op.SelectionSet)
	}
	for _, fr := range doc.Fragments {
		lk.op = nil
		td := schema.Types[fr.TypeCondition]
		verifrt.Assert(fr.Definition != nil && fr.Definition == td, "C09.fragment-definition-type")
		lk.directives(fr.Directives, ast.LocationFragmentDefinition, td)
	}
}

type linkChecker struct {
	s    *ast.Schema
	doc  *ast.QueryDocument
	op   *ast.OperationDefinition
	seen map[*ast.FragmentDefinition]bool
}

func (lk *linkChecker) selectionSet(parent *ast.Definition, set ast.SelectionSet) {
	for _, sel := range set {
		switch x := sel.(type) {
		case *ast.Field:
			verifrt.Cover("C09.field")
			verifrt.Assert(x.ObjectDefinition != nil && x.ObjectDefinition == parent, "C09.field-parent-type")
			verifrt.Assert(x.Definition != nil, "C09.field-definition-set")
			if x.Definition == nil {
				continue
			}
			var next *ast.Definition
			if x.Name == "__typename" {
				verifrt.Assert(x.Definition.Name == "__typename" && x.Definition.Type != nil && x.Definition.Type.Name() == "String", "C09.typename-definition")
			} else {
				var want *ast.FieldDefinition
				if parent != nil {
					for _, fd := range parent.Fields {
						if fd.Name == x.Name {
							want = fd
						}
					}
				}
				verifrt.Assert(x.Definition == want, "C09.field-definition")
			}
			if x.Definition.Type != nil {
				next = lk.s.Types[x.Definition.Type.Name()]
			}
			for _, a := range x.Arguments {
				var ad *ast.ArgumentDefinition
				for _, d := range x.Definition.Arguments {
					if d.Name == a.Name {
						ad = d
					}
				}
				verifrt.Assert(ad != nil, "C09.argument-known")
				if ad != nil {
					verifrt.Cover("C09.argument-value")
					lk.value(a.Value, ad.Type)
				}
			}
			lk.directives(x.Directives, ast.LocationField, next)
			lk.selectionSet(next, x.SelectionSet)
		case *ast.InlineFragment:
			verifrt.Assert(x.ObjectDefinition == parent, "C09.inline-fragment-parent-type")
			next := parent
			if x.TypeCondition != "" {
				next = lk.s.Types[x.TypeCondition]
			}
			lk.directives(x.Directives, ast.LocationInlineFragment, next)
			lk.selectionSet(next, x.SelectionSet)
		case *ast.FragmentSpread:
			verifrt.Cover("C09.spread")
			var want *ast.FragmentDefinition
			for _, fr := range lk.doc.Fragments {
				if fr.Name == x.Name && want == nil {
					want = fr
				}
			}
			verifrt.Assert(x.Definition != nil && x.Definition == want, "C09.spread-definition")
			verifrt.Assert(x.ObjectDefinition == parent, "C09.spread-parent-type")
			if want == nil {
				continue
			}
			td := lk.s.Types[want.TypeCondition]
			lk.directives(x.Directives, ast.LocationFragmentSpread, td)
			if lk.seen == nil {
				lk.seen = map[*ast.FragmentDefinition]bool{}
			}
			if !lk.seen[want] {
				lk.seen[want] = true
				lk.selectionSet(td, want.SelectionSet)
			}
		}
	}
}

func (lk *linkChecker) directives(ds ast.DirectiveList, loc ast.DirectiveLocation, parent *ast.Definition) {
	for _, d := range ds {
		verifrt.Cover("C09.directive")
		def := lk.s.Directives[d.Name]
		verifrt.Assert(d.Definition != nil && d.Definition == def, "C09.directive-definition")
		verifrt.Assert(d.Location == loc, "C09.directive-location")
		verifrt.Assert(d.ParentDefinition == parent, "C09.directive-parent")
		if def == nil {
			continue
		}
		for _, a := range d.Arguments {
			var ad *ast.ArgumentDefinition
			for _, x := range def.Arguments {
				if x.Name == a.Name {
					ad = x
				}
			}
			verifrt.Assert(ad != nil, "C09.argument-known")
			if ad != nil {
				lk.value(a.Value, ad.Type)
			}
		}
	}
}

// value: the expected type of v is t (a schema-owned type, or one derived from it).
func (lk *linkChecker) value(v *ast.Value, t *ast.Type) {
	if v == nil {
		return
	}
	td := lk.s.Types[t.Name()]
	verifrt.Assert(v.ExpectedType == t, "C09.value-expected-type")
	verifrt.Assert(v.Definition != nil && v.Definition == td, "C09.value-definition")
	switch v.Kind {
	case ast.Variable:
		verifrt.Cover("C09.variable-use")
		if lk.op != nil {
			var want *ast.VariableDefinition
			for _, vd := range lk.op.VariableDefinitions {
				if vd.Variable == v.Raw && want == nil {
					want = vd
				}
			}
			verifrt.Assert(v.VariableDefinition != nil && v.VariableDefinition == want, "C09.variable-definition-link")
		}
	case ast.ListValue:
		verifrt.Cover("C09.list-literal")
		if t.Elem == nil {
			return
		}
		for _, c := range v.Children {
			lk.value(c.Value, t.Elem)
		}
	case ast.ObjectValue:
		verifrt.Cover("C09.object-literal")
		if td == nil || td.Kind != ast.InputObject {
			return // contents of custom-scalar literals are excepted
		}
		for _, c := range v.Children {
			var fd *ast.FieldDefinition
			for _, f := range td.Fields {
				if f.Name == c.Name {
					fd = f
				}
			}
			verifrt.Assert(fd != nil, "C09.input-field-known")
			if fd != nil {
				lk.value(c.Value, fd.Type)
			}
		}
	}
}
