package hval

// pinned by TestReflectExpectations from the real package reflect
var reflectExpect = []string{
	"invalid",
	"int:int:<int Value> | wrapped slice[1:int:int:<int Value>,] []int",
	"int64:int64:<int64 Value> | wrapped slice[1:int64:int64:<int64 Value>,] other",
	"float64:float64:<float64 Value> | wrapped slice[1:float64:float64:<float64 Value>,] other",
	"string:s | wrapped slice[1:string:s,] []string",
	"bool:bool:<bool Value> | wrapped slice[1:bool:bool:<bool Value>,] other",
	"string:7 | wrapped slice[1:string:7,] other",
	"slice[0:] | wrapped slice[1:slice[0:],] [][]interface{}",
	"slice[1:interface(nil),] | wrapped slice[1:slice[1:interface(nil),],] [][]interface{}",
	"slice[4:interface(int:int:<int Value>),interface(string:a),interface(nil),interface(slice[1:interface(int:int:<int Value>),]),] | wrapped slice[1:slice[4:interface(int:int:<int Value>),interface(string:a),interface(nil),interface(slice[1:interface(int:int:<int Value>),]),],] [][]interface{}",
	"map{zz?invalid} | wrapped slice[1:map{zz?invalid},] []map",
	"map{f=interface(int:int:<int Value>),m=interface(map{f=interface(string:x),zz?invalid}),n=interface(nil),zz?invalid} | wrapped slice[1:map{f=interface(int:int:<int Value>),m=interface(map{f=interface(string:x),zz?invalid}),n=interface(nil),zz?invalid},] []map | set map{f=interface(string:set),m=interface(map{f=interface(string:x),zz?invalid}),n=interface(nil),zz?invalid}",
	"slice[1:interface(map{f=interface(slice[1:interface(nil),]),zz?invalid}),] | wrapped slice[1:slice[1:interface(map{f=interface(slice[1:interface(nil),]),zz?invalid}),],] [][]interface{}",
}
