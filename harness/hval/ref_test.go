package hval

import (
	"os"
	"path/filepath"
	"strconv"
	"strings"
	"testing"

	"github.com/vektah/gqlparser/v2"
	"github.com/vektah/gqlparser/v2/ast"
	"github.com/vektah/gqlparser/v2/parser"
	"github.com/vektah/gqlparser/v2/validator"
	"gopkg.in/yaml.v3"
)

type vspec struct {
	Name   string
	Rule   string
	Schema string
	Query  string
	Errors []struct{ Message string }
}

func TestRefValidateCorpus(t *testing.T) {
	var raw []string
	b, err := os.ReadFile("/repo/validator/imported/spec/schemas.yml")
	if err != nil {
		t.Fatal(err)
	}
	if err := yaml.Unmarshal(b, &raw); err != nil {
		t.Fatal(err)
	}
	var schemas []*ast.Schema
	for _, r := range raw {
		s, err := gqlparser.LoadSchema(&ast.Source{Input: r})
		if err != nil {
			t.Fatal(err)
		}
		schemas = append(schemas, s)
	}
	files, _ := filepath.Glob("/repo/validator/imported/spec/*.spec.yml")
	n, diffs := 0, 0
	for _, f := range files {
		var specs []vspec
		b, _ := os.ReadFile(f)
		if err := yaml.Unmarshal(b, &specs); err != nil {
			t.Fatal(err)
		}
		for _, sp := range specs {
			var schema *ast.Schema
			if idx, err := strconv.Atoi(sp.Schema); err == nil {
				schema = schemas[idx]
			} else {
				s, err := gqlparser.LoadSchema(&ast.Source{Input: sp.Schema})
				if err != nil {
					continue
				}
				schema = s
			}
			doc, perr := parser.ParseQuery(&ast.Source{Input: sp.Query})
			if perr != nil {
				continue
			}
			n++
			errs := validator.Validate(schema, doc)
			ok, why := RefValid(schema, doc, VLib{})
			if ok != (len(errs) == 0) {
				diffs++
				var rules []string
				for _, e := range errs {
					rules = append(rules, e.Rule)
				}
				t.Logf("DIFF %s / %s: lib=%v ref=%v\n%s", filepath.Base(f), sp.Name, rules, why, strings.TrimSpace(sp.Query))
			}
		}
	}
	t.Logf("%d cases, %d differences", n, diffs)
}
