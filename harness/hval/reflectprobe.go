package hval

// A check of the engine's model of package reflect against the real package:
// describe() walks a JSON-like value with exactly the reflect calls the
// coercer uses and writes what it sees; natively the descriptions come from the
// real reflect and are pinned in reflectExpect (TestReflectExpectations keeps
// the table current); under the engine ReflectModelSelfTest asserts that the
// model yields the same descriptions. Run at setup.

import (
	"encoding/json"
	"reflect"
	"sort"
	"strconv"

	"verifh/verifrt"
)

func describe(v reflect.Value, depth int) string {
	if !v.IsValid() {
		return "invalid"
	}
	out := v.Kind().String()
	switch v.Kind() {
	case reflect.Interface, reflect.Ptr:
		if v.IsNil() {
			return out + "(nil)"
		}
		return out + "(" + describe(v.Elem(), depth+1) + ")"
	case reflect.Slice:
		out += "[" + strconv.Itoa(v.Len()) + ":"
		for i := 0; i < v.Len(); i++ {
			out += describe(v.Index(i), depth+1) + ","
		}
		return out + "]"
	case reflect.Map:
		keys := v.MapKeys()
		names := make([]string, 0, len(keys))
		for _, k := range keys {
			names = append(names, k.String())
		}
		sort.Strings(names)
		out += "{"
		for _, n := range names {
			out += n + "=" + describe(v.MapIndex(reflect.ValueOf(n)), depth+1) + ","
		}
		out += "zz?" + describe(v.MapIndex(reflect.ValueOf("zz")), depth+1)
		return out + "}"
	case reflect.String:
		return out + ":" + v.String()
	}
	return out + ":" + v.Type().Kind().String() + ":" + v.String()
}

// probeValues: the shapes of value the C14 generator produces.
func probeValues() []interface{} {
	return []interface{}{
		nil, 5, int64(7), 1.5, "s", true, json.Number("7"),
		[]interface{}{}, []interface{}{nil}, []interface{}{1, "a", nil, []interface{}{2}},
		map[string]interface{}{}, map[string]interface{}{"f": 1, "n": nil, "m": map[string]interface{}{"f": "x"}},
		[]interface{}{map[string]interface{}{"f": []interface{}{nil}}},
	}
}

// probe: description of the value, of the value wrapped into a one-item slice
// the way the coercer does it, and of a map after SetMapIndex.
func probe(x interface{}) string {
	v := reflect.ValueOf(x)
	out := describe(v, 0)
	if v.IsValid() {
		slc := reflect.MakeSlice(reflect.SliceOf(v.Type()), 0, 0)
		slc = reflect.Append(slc, v)
		out += " | wrapped " + describe(slc, 0)
		switch slc.Interface().(type) {
		case []int:
			out += " []int"
		case []interface{}:
			out += " []interface{}"
		case []string:
			out += " []string"
		case []map[string]interface{}:
			out += " []map"
		case [][]interface{}:
			out += " [][]interface{}"
		default:
			out += " other"
		}
		if v.Kind() == reflect.Map && v.Len() > 0 {
			v.SetMapIndex(reflect.ValueOf("f"), reflect.ValueOf("set"))
			out += " | set " + describe(v, 0)
		}
	}
	return out
}

// ReflectModelSelfTest: run under the engine at setup.
func ReflectModelSelfTest() {
	vals := probeValues()
	verifrt.Assert(len(vals) == len(reflectExpect), "H.reflect-table-length")
	for i, x := range vals {
		got := probe(x)
		if got != reflectExpect[i] {
			verifrt.Show("probe "+strconv.Itoa(i), got)
			verifrt.Show("expected", reflectExpect[i])
		}
		verifrt.Assert(got == reflectExpect[i], "H.reflect-model-agrees")
	}
	verifrt.Cover("H.reflect-model-checked")
}
