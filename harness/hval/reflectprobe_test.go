package hval

import (
	"fmt"
	"testing"
)

// The pinned descriptions are what the real package reflect yields.
func TestReflectExpectations(t *testing.T) {
	if testing.Verbose() {
		for _, x := range probeValues() {
			fmt.Printf("\t%q,\n", probe(x))
		}
	}
	vals := probeValues()
	if len(vals) != len(reflectExpect) {
		t.Fatalf("table has %d entries, %d values", len(reflectExpect), len(vals))
	}
	for i, x := range vals {
		if got := probe(x); got != reflectExpect[i] {
			t.Errorf("entry %d: reflect gives\n%q\npinned\n%q", i, got, reflectExpect[i])
		}
	}
}
