// Package hval: harnesses for schema loading, validation, walking, variables, arguments.
package hval

import (
	"verifh/verifrt"

	"github.com/vektah/gqlparser/v2"
	"github.com/vektah/gqlparser/v2/ast"
	"github.com/vektah/gqlparser/v2/validator"
)

const smokeSDL = `
type Query { a: Int, b(x: Int! = 1, y: [String]): B, u: U }
type B implements I { id: ID!, name: String }
interface I { id: ID! }
union U = B | Query
enum E { X Y }
input In { f: Int!, g: E = X }
`

func Smoke() {
	schema, err := gqlparser.LoadSchema(&ast.Source{Name: "s.graphql", Input: smokeSDL})
	verifrt.Assert(err == nil, "S.load")
	if err != nil {
		return
	}
	verifrt.Assert(schema.Types["B"] != nil, "S.typeB")
	doc, errs := gqlparser.LoadQuery(schema, `query Q($v: Int = 2) { a b(x: $v) { id ... on B { name } } zz }`)
	verifrt.Assert(doc == nil && len(errs) == 1, "S.oneerr")
	_ = validator.Validate
}
