package hval

// Type-system documents as token streams with symbolic names (C07, C17).
// Every top-level definition is recorded as a segment so that the same
// symbolic choices can be assembled in another order or split over sources.

import (
	"verifh/hparse"
)

// SB: builder for type-system documents.
type SB struct {
	B
	cuts []int // start of each top-level definition
}

func (s *SB) def(f func()) { s.cuts = append(s.cuts, len(s.toks)); f() }

// Segments returns the token list of each top-level definition.
func (s *SB) Segments() [][]hparse.Tok {
	var out [][]hparse.Tok
	for i, c := range s.cuts {
		end := len(s.toks)
		if i+1 < len(s.cuts) {
			end = s.cuts[i+1]
		}
		out = append(out, s.toks[c:end])
	}
	return out
}

func (s *SB) field(name string, typ string) { s.n(name); s.p(hparse.KColon); s.n(typ) }

func (s *SB) dirUse(name string, withArg bool) {
	s.p(hparse.KAt)
	s.n(name)
	if withArg {
		s.p(hparse.KParenL)
		s.n("x")
		s.p(hparse.KColon)
		s.lit(hparse.KInt, "1")
		s.p(hparse.KParenR)
	}
}

var allLocations = []string{"SCHEMA", "SCALAR", "OBJECT", "FIELD_DEFINITION", "ARGUMENT_DEFINITION", "INTERFACE", "UNION", "ENUM", "ENUM_VALUE", "INPUT_OBJECT", "INPUT_FIELD_DEFINITION", "FIELD"}

// SchemaShapes: each writes a small type system; most of its names are symbolic.
var SchemaShapes = []func(s *SB){
	// 0: covariance of an implemented field
	func(s *SB) {
		s.def(func() {
			s.ns("interface", "I")
			s.braces(func() { s.n("f"); s.p(hparse.KColon); s.typeRef("Int", "I", "A", "U", "B") })
		})
		s.def(func() {
			s.ns("type", "A", "implements", "I")
			s.braces(func() { s.n("f"); s.p(hparse.KColon); s.typeRef("Int", "A", "U", "B", "String", "I") })
		})
		s.def(func() { s.ns("type", "B"); s.braces(func() { s.field("f", "Int") }) })
		s.def(func() {
			s.ns("union", "U")
			s.p(hparse.KEquals)
			s.pick("A", "Missing", "Query", "I")
			s.p(hparse.KPipe)
			s.n("B")
		})
		s.def(func() { s.ns("type", "Query"); s.braces(func() { s.field("a", "A") }) })
	},
	// 1: arguments of an implemented field
	func(s *SB) {
		s.def(func() {
			s.ns("interface", "I")
			s.braces(func() {
				s.n("f")
				s.p(hparse.KParenL)
				s.n("a")
				s.p(hparse.KColon)
				s.typeRef("Int", "String")
				s.p(hparse.KParenR, hparse.KColon)
				s.n("Int")
			})
		})
		s.def(func() {
			s.ns("type", "A", "implements", "I")
			s.braces(func() {
				s.pick("f", "g")
				s.p(hparse.KParenL)
				s.pick("a", "b")
				s.p(hparse.KColon)
				s.typeRef("Int", "String")
				if s.alt(2) == 1 {
					s.p(hparse.KEquals)
					s.n("null")
				}
				if s.alt(2) == 1 {
					s.pick("b", "c", "a")
					s.p(hparse.KColon)
					s.typeRef("Int")
					if s.alt(2) == 1 {
						s.p(hparse.KEquals)
						s.lit(hparse.KInt, "1")
					}
				}
				s.p(hparse.KParenR, hparse.KColon)
				s.n("Int")
			})
		})
		s.def(func() { s.ns("type", "Query"); s.braces(func() { s.field("a", "A") }) })
	},
	// 2: interfaces implementing interfaces
	func(s *SB) {
		s.def(func() { s.ns("interface", "I"); s.braces(func() { s.field("f", "Int") }) })
		s.def(func() {
			s.ns("interface", "J")
			if s.alt(2) == 1 {
				s.n("implements")
				s.pick("I", "J", "Missing", "A", "K")
			}
			s.braces(func() {
				s.field("f", "Int")
				if s.alt(2) == 1 {
					s.field("g", "Int")
				}
			})
		})
		s.def(func() {
			s.ns("interface", "K", "implements")
			s.pick("I", "J")
			s.braces(func() { s.field("f", "Int"); s.field("g", "Int") })
		})
		s.def(func() {
			s.ns("type", "A", "implements")
			s.pick("J", "I", "K")
			if s.alt(2) == 1 {
				s.p(hparse.KAmp)
				s.pick("I", "J", "Missing", "E")
			}
			s.braces(func() { s.field("f", "Int"); s.pick("g", "h"); s.p(hparse.KColon); s.n("Int") })
		})
		s.def(func() { s.ns("enum", "E"); s.braces(func() { s.n("X") }) })
		s.def(func() { s.ns("type", "Query"); s.braces(func() { s.field("a", "A") }) })
	},
	// 3: kinds in positions (one varied definition per part)
	func(s *SB) {
		part := s.altN("part", 5)
		s.def(func() {
			s.ns("type", "Query")
			s.braces(func() {
				s.n("q")
				s.p(hparse.KColon)
				if part == 0 {
					s.typeRef("Int", "A", "E", "U", "In", "Missing", "I", "S")
				} else {
					s.n("A")
				}
			})
		})
		s.def(func() {
			s.ns("type", "A")
			s.braces(func() {
				s.n("f")
				s.p(hparse.KParenL)
				s.n("x")
				s.p(hparse.KColon)
				if part == 1 {
					s.typeRef("Int", "In", "E", "A", "U", "Missing", "I", "S")
				} else {
					s.n("In")
				}
				s.p(hparse.KParenR, hparse.KColon)
				s.n("Int")
			})
		})
		s.def(func() {
			s.ns("input", "In")
			s.braces(func() {
				s.n("g")
				s.p(hparse.KColon)
				if part == 2 {
					s.typeRef("Int", "In", "E", "A", "Missing", "U", "I", "S")
				} else {
					s.n("Int")
				}
			})
		})
		s.def(func() { s.ns("interface", "I"); s.braces(func() { s.field("f", "Int") }) })
		s.def(func() {
			s.ns("union", "U")
			s.p(hparse.KEquals)
			if part == 3 {
				s.pick("A", "Query", "In", "E", "Missing", "I", "U", "S", "Int")
				if s.alt(2) == 1 {
					s.p(hparse.KPipe)
					s.pick("A", "Query", "E")
				}
			} else {
				s.n("A")
			}
		})
		s.def(func() {
			s.ns("enum", "E")
			if part == 4 {
				switch s.alt(3) {
				case 0: // no values
				case 1:
					s.braces(func() { s.pick("X", "true", "null", "false", "__x", "x") })
				case 2:
					s.braces(func() { s.n("X"); s.pick("Y", "true", "__y") })
				}
			} else {
				s.braces(func() { s.n("X") })
			}
		})
		s.def(func() { s.ns("scalar", "S") })
	},
	// 4: names, duplicates, empty definitions
	func(s *SB) {
		part := s.altN("part", 4)
		s.def(func() { s.ns("type", "Query"); s.braces(func() { s.field("a", "Int") }) })
		switch part {
		case 0: // type, field and argument names
			s.def(func() {
				s.n("type")
				s.pick("A", "__A", "Query", "Int", "__Type", "B")
				s.braces(func() {
					s.pick("f", "__f", "__typename")
					if s.alt(2) == 1 {
						s.p(hparse.KParenL)
						s.pick("a", "__a")
						s.p(hparse.KColon)
						s.n("Int")
						s.p(hparse.KParenR)
					}
					s.p(hparse.KColon)
					s.n("Int")
					if s.alt(2) == 1 {
						s.pick("f", "g", "__f")
						s.p(hparse.KColon)
						s.n("Int")
					}
				})
			})
			s.def(func() { s.ns("type", "B"); s.braces(func() { s.field("f", "Int") }) })
		case 1: // definitions without members
			s.def(func() {
				s.pick("type", "interface", "input", "enum", "scalar", "union")
				s.n("A")
			})
			s.def(func() {
				s.pick("type", "interface", "input")
				s.n("B")
				s.braces(func() { s.field("f", "Int") })
			})
		case 2: // directive names
			s.def(func() {
				s.ns("directive")
				s.p(hparse.KAt)
				s.pick("d", "__d", "skip", "e", "deprecated")
				if s.alt(2) == 1 {
					s.p(hparse.KParenL)
					s.pick("a", "__a")
					s.p(hparse.KColon)
					s.pick("Int", "Missing", "Query", "In")
					s.p(hparse.KParenR)
				}
				s.ns("on", "OBJECT")
			})
			s.def(func() { s.n("directive"); s.p(hparse.KAt); s.ns("e", "on", "OBJECT") })
			s.def(func() { s.ns("input", "In"); s.braces(func() { s.field("f", "Int") }) })
		case 3: // duplicate fields through an extension; extension kinds
			s.def(func() { s.ns("type", "A"); s.braces(func() { s.field("f", "Int") }) })
			s.def(func() {
				s.n("extend")
				s.pick("type", "interface", "input")
				s.pick("A", "B", "Query", "Int")
				s.braces(func() { s.pick("f", "g", "a", "__g"); s.p(hparse.KColon); s.pick("Int", "A", "Missing") })
			})
			s.def(func() {
				s.ns("extend", "enum")
				s.pick("E", "A", "F")
				s.braces(func() { s.pick("Y", "true") })
			})
			s.def(func() { s.ns("enum", "E"); s.braces(func() { s.n("X") }) })
		}
	},
	// 5: directives: where they may be used, and their required arguments
	func(s *SB) {
		part := s.altN("part", 3)
		s.def(func() {
			s.n("directive")
			s.p(hparse.KAt)
			s.n("d")
			s.p(hparse.KParenL)
			s.n("x")
			s.p(hparse.KColon)
			s.n("Int")
			switch s.alt(3) {
			case 0:
			case 1:
				s.p(hparse.KBang)
			case 2:
				s.p(hparse.KBang, hparse.KEquals)
				s.lit(hparse.KInt, "1")
			}
			s.p(hparse.KParenR)
			s.n("on")
			s.pick(allLocations...)
			if s.alt(2) == 1 {
				s.p(hparse.KPipe)
				s.pick(allLocations...)
			}
		})
		use := func() {
			s.p(hparse.KAt)
			s.pick("d", "nope", "deprecated", "__d")
			switch s.alt(3) {
			case 0:
			case 1:
				s.p(hparse.KParenL)
				s.pick("x", "y", "reason")
				s.p(hparse.KColon)
				if s.alt(2) == 1 {
					s.n("null")
				} else {
					s.lit(hparse.KInt, "1")
				}
				s.p(hparse.KParenR)
			case 2:
				s.p(hparse.KParenL)
				s.ns("x")
				s.p(hparse.KColon)
				s.lit(hparse.KInt, "1")
				s.pick("x", "y")
				s.p(hparse.KColon)
				s.lit(hparse.KInt, "2")
				s.p(hparse.KParenR)
			}
		}
		site := -1
		if part == 0 {
			site = s.altN("site", 10)
		}
		at := func(i int) {
			if site == i {
				use()
			}
		}
		s.def(func() {
			s.ns("type", "Query")
			at(0)
			s.braces(func() {
				s.n("a")
				s.p(hparse.KParenL)
				s.n("x")
				s.p(hparse.KColon)
				s.n("Int")
				at(1)
				s.p(hparse.KParenR, hparse.KColon)
				s.n("Int")
				at(2)
			})
		})
		s.def(func() { s.ns("interface", "I"); at(3); s.braces(func() { s.field("f", "Int") }) })
		s.def(func() { s.ns("union", "U"); at(4); s.p(hparse.KEquals); s.n("Query") })
		s.def(func() { s.ns("enum", "E"); at(5); s.braces(func() { s.n("X"); at(6) }) })
		s.def(func() { s.ns("input", "In"); at(7); s.braces(func() { s.field("g", "Int"); at(8) }) })
		s.def(func() { s.ns("scalar", "S"); at(9) })
		switch part {
		case 1: // on the schema definition or an extension of it
			s.def(func() {
				if s.alt(2) == 1 {
					s.n("extend")
				}
				s.n("schema")
				use()
				s.braces(func() { s.field("query", "Query") })
			})
		case 2: // a directive definition whose argument uses a directive
			s.def(func() {
				s.n("directive")
				s.p(hparse.KAt)
				s.n("self")
				s.p(hparse.KParenL)
				s.n("a")
				s.p(hparse.KColon)
				s.n("Int")
				s.p(hparse.KAt)
				s.pick("self", "d", "nope")
				s.p(hparse.KParenR)
				s.ns("on", "ARGUMENT_DEFINITION")
			})
		}
	},
	// 6: root operation types
	func(s *SB) {
		s.def(func() { s.ns("type", "Query"); s.braces(func() { s.field("a", "Int") }) })
		s.def(func() { s.ns("type", "A"); s.braces(func() { s.field("f", "Int") }) })
		s.def(func() {
			s.n("type")
			s.pick("Mutation", "Subscription", "M")
			s.braces(func() { s.field("m", "Int") })
		})
		root := func() {
			s.braces(func() {
				s.pick("query", "mutation", "subscription")
				s.p(hparse.KColon)
				s.pick("Query", "A", "Missing", "M", "Mutation", "Int", "E")
				if s.alt(2) == 1 {
					s.pick("query", "mutation")
					s.p(hparse.KColon)
					s.pick("A", "Missing", "Query")
				}
			})
		}
		small := func() {
			s.braces(func() {
				s.pick("query", "mutation")
				s.p(hparse.KColon)
				s.pick("A", "Missing", "Query")
			})
		}
		switch s.altN("part", 5) {
		case 0: // no schema definition
		case 1:
			s.def(func() { s.n("schema"); root() })
		case 2: // a definition and an extension
			s.def(func() { s.n("schema"); small() })
			s.def(func() { s.ns("extend", "schema"); root() })
		case 3: // an extension only
			s.def(func() { s.ns("extend", "schema"); root() })
		case 4: // two definitions
			s.def(func() { s.n("schema"); small() })
			s.def(func() { s.n("schema"); small() })
		}
		s.def(func() { s.ns("enum", "E"); s.braces(func() { s.n("X") }) })
	},
	// 7: types that exist only through an extension, referred to by other extensions
	func(s *SB) {
		s.def(func() {
			s.n("extend")
			s.pick("interface", "type")
			s.n("X")
			s.braces(func() { s.field("f", "Int") })
		})
		s.def(func() { s.ns("type", "A"); s.braces(func() { s.field("f", "Int") }) })
		s.def(func() {
			s.ns("extend", "type", "A", "implements")
			s.pick("X", "I", "Missing", "B")
		})
		s.def(func() { s.ns("interface", "I"); s.braces(func() { s.field("f", "Int") }) })
		s.def(func() { s.ns("union", "U"); s.p(hparse.KEquals); s.n("A") })
		s.def(func() {
			s.ns("extend", "union", "U")
			s.p(hparse.KEquals)
			s.pick("B", "X", "Missing", "I")
		})
		s.def(func() { s.ns("extend", "type", "B"); s.braces(func() { s.field("f", "Int") }) })
		s.def(func() { s.ns("type", "Query"); s.braces(func() { s.field("a", "A") }) })
	},
	// 8: extension-only types referring to other extension-only types whose extension comes later
	// (a union and an implementing object that have no definition of their own)
	func(s *SB) {
		s.def(func() {
			s.ns("extend", "union", "V")
			s.p(hparse.KEquals)
			s.pick("B", "A", "X", "Missing")
		})
		s.def(func() { s.ns("extend", "type", "B"); s.braces(func() { s.field("f", "Int") }) })
		s.def(func() {
			s.ns("extend", "type", "C", "implements")
			s.pick("X", "I", "B", "Missing")
			s.braces(func() { s.field("f", "Int") })
		})
		s.def(func() {
			s.n("extend")
			s.pick("interface", "type")
			s.n("X")
			s.braces(func() { s.field("f", "Int") })
		})
		s.def(func() { s.ns("type", "A"); s.braces(func() { s.field("f", "Int") }) })
		s.def(func() { s.ns("interface", "I"); s.braces(func() { s.field("f", "Int") }) })
		s.def(func() { s.ns("type", "Query"); s.braces(func() { s.field("a", "A"); s.field("v", "V") }) })
	},
}
