package hval

import (
	"strconv"
	"strings"

	"verifh/hparse"
	"verifh/verifrt"

	"github.com/vektah/gqlparser/v2"
	"github.com/vektah/gqlparser/v2/ast"
)

// Schemas the documents are validated against (loaded by the real loader).
var Schemas = []string{
	// 0: kitchen sink
	`
type Query { a: Int  s: String  o(x: Int, d: Int! = 1, l: [Int!], in: In, e: E, c: Custom, one: One, id: ID, fl: Float, b: Boolean, st: String, nn: [Int]! = [1], ll: [[Int!]]): Obj  q(r: Int!, x: Int): Obj  i: Iface  u: Un  list: [Obj!]! }
type Mutation { m: Int }
type Subscription { a: Int  b: Int  o: Obj }
type Obj implements Iface { a: Int  b: Int  id: ID!  o: Obj  s: String  x(k: Int, l: [Int], in: In): String  n: Int! }
type Obj2 implements Iface { a: String  id: ID!  o: Obj  s: String!  x(k: Int, l: [Int], in: In): String n: Int }
interface Iface { id: ID!  o: Obj }
union Un = Obj | Obj2
enum E { X Y }
scalar Custom
input In { f: Int!  g: E = X  n: In  l: [Int]  ll: [[Int]] }
input One @oneOf { p: Int  q: String }
directive @d(x: Int) on FIELD | QUERY | FRAGMENT_SPREAD | INLINE_FRAGMENT | FRAGMENT_DEFINITION | VARIABLE_DEFINITION
directive @rep(x: Int) repeatable on FIELD | QUERY
directive @onq on QUERY
directive @req(x: Int!) on FIELD
`,
	// 1: query root only
	`
type Query { a: Int  o: Obj }
type Obj { a: Int }
`,
	// 2: variable types of C14
	VarSchema,
}

func LoadTestSchema(i int) *ast.Schema {
	s, err := gqlparser.LoadSchema(&ast.Source{Name: "schema.graphql", Input: Schemas[i]})
	if err != nil {
		panic("test schema does not load: " + err.Error())
	}
	return s
}

// B builds a document as a token stream with symbolic slots.
type B struct {
	toks []hparse.Tok
	slot int
}

func (b *B) p(kinds ...int) {
	for _, k := range kinds {
		b.toks = append(b.toks, hparse.Tok{Kind: k})
	}
}
func (b *B) n(v string) { b.toks = append(b.toks, hparse.Tok{Kind: hparse.KName, Val: v}) }
func (b *B) ns(vs ...string) {
	for _, v := range vs {
		b.n(v)
	}
}

func (b *B) id(prefix string) string {
	b.slot++
	return prefix + strconv.Itoa(b.slot)
}

// pick emits a Name token whose value is a symbolic choice among opts. The
// variable is named after the slot and the options: the same slot number means
// different things on different paths, and a variable must mean one thing.
func (b *B) pick(opts ...string) string {
	v := verifrt.Choice(b.id("nm")+"_"+strings.Join(opts, "."), opts...)
	b.toks = append(b.toks, hparse.Tok{Kind: hparse.KName, Val: v})
	return v
}

// alt chooses one of n structural alternatives (one path each). A case may pin
// a slot through a parameter named alt<slot>, which is how the driver splits a
// shape over several runs.
func (b *B) alt(n int) int {
	id := b.id("alt")
	if p := verifrt.Param(id, -1); p >= 0 {
		if p >= n {
			verifrt.Assume(false)
		}
		return p
	}
	return verifrt.Split(verifrt.Int(id+"_of"+strconv.Itoa(n), 0, n-1))
}

// altN is alt with a stable name, for alternatives the driver splits on.
func (b *B) altN(name string, n int) int {
	if p := verifrt.Param(name, -1); p >= 0 {
		if p >= n {
			verifrt.Assume(false)
		}
		return p
	}
	return verifrt.Split(verifrt.Int(name, 0, n-1))
}

func (b *B) braces(f func()) { b.p(hparse.KBraceL); f(); b.p(hparse.KBraceR) }

func (b *B) lit(kind int, val string) { b.toks = append(b.toks, hparse.Tok{Kind: kind, Val: val}) }

// scalarValue emits one leaf literal.
func (b *B) leafValue() {
	switch b.alt(9) {
	case 0:
		b.lit(hparse.KInt, "1")
	case 1:
		b.lit(hparse.KInt, "2147483647")
	case 2:
		b.lit(hparse.KInt, "2147483648")
	case 3:
		b.lit(hparse.KInt, "99999999999999999999")
	case 4:
		b.lit(hparse.KFloat, "1.5")
	case 5:
		b.lit(hparse.KString, "s")
	case 6:
		b.pick("true", "null", "X", "Q", "x")
	case 7:
		b.lit(hparse.KInt, "-2147483649")
	case 8:
		b.lit(hparse.KBlockString, "b")
	}
}

// variable emits $v or $w.
func (b *B) variable() {
	b.p(hparse.KDollar)
	b.pick("v", "w")
}

// value emits a literal of any kind, one level of nesting.
func (b *B) value(allowVar bool) {
	n := 6
	if !allowVar {
		n = 5
	}
	switch b.alt(n) {
	case 0:
		b.leafValue()
	case 1: // list
		b.p(hparse.KBracketL)
		switch b.alt(6) {
		case 0:
		case 1:
			b.leafValue()
		case 2:
			b.leafValue()
			b.leafValue()
		case 3:
			if allowVar {
				b.variable()
			} else {
				b.n("null")
			}
		case 4: // a list inside the list
			b.p(hparse.KBracketL)
			b.leafValue()
			b.p(hparse.KBracketR)
		case 5: // a list and a single value side by side
			b.p(hparse.KBracketL)
			b.leafValue()
			b.p(hparse.KBracketR)
			b.leafValue()
		}
		b.p(hparse.KBracketR)
	case 2: // object with one field
		b.p(hparse.KBraceL)
		b.pick("f", "g", "p", "q", "zz")
		b.p(hparse.KColon)
		if allowVar && b.alt(2) == 1 {
			b.variable()
		} else {
			b.leafValue()
		}
		b.p(hparse.KBraceR)
	case 3: // object with two fields
		b.p(hparse.KBraceL)
		b.pick("f", "p")
		b.p(hparse.KColon)
		b.leafValue()
		b.pick("f", "g", "q", "n")
		b.p(hparse.KColon)
		b.leafValue()
		b.p(hparse.KBraceR)
	case 4: // empty object
		b.p(hparse.KBraceL, hparse.KBraceR)
	case 5:
		b.variable()
	}
}

func (b *B) typeRef(opts ...string) {
	shape := b.alt(5)
	if shape >= 2 {
		b.p(hparse.KBracketL)
	}
	b.pick(opts...)
	if shape == 1 || shape == 3 {
		b.p(hparse.KBang)
	}
	if shape >= 2 {
		b.p(hparse.KBracketR)
		if shape == 4 {
			b.p(hparse.KBang)
		}
	}
}

// Shapes of documents. Each returns the token stream.
var Shapes = []func(b *B){
	// 0: one argument with any literal on the kitchen-sink field o
	func(b *B) {
		b.braces(func() {
			b.pick("o", "q")
			b.p(hparse.KParenL)
			b.pick("x", "r", "d", "l", "in", "e", "c", "one", "id", "fl", "b", "st", "zz", "ll")
			b.p(hparse.KColon)
			b.value(false)
			b.p(hparse.KParenR)
			b.braces(func() { b.n("a") })
		})
	},
	// 1: a variable definition and its use
	func(b *B) {
		b.ns("query", "Q")
		b.p(hparse.KParenL, hparse.KDollar)
		b.n("v")
		b.p(hparse.KColon)
		b.typeRef("Int", "String", "E", "In", "Obj", "Missing", "Custom", "One", "ID")
		switch b.alt(4) {
		case 0:
		case 1:
			b.p(hparse.KEquals)
			b.lit(hparse.KInt, "1")
		case 2:
			b.p(hparse.KEquals)
			b.n("null")
		case 3:
			b.p(hparse.KEquals)
			b.p(hparse.KBracketL)
			b.lit(hparse.KInt, "1")
			b.p(hparse.KBracketR)
		}
		if b.alt(2) == 1 { // a second definition: duplicate or unused
			b.p(hparse.KDollar)
			b.pick("v", "u")
			b.p(hparse.KColon)
			b.n("Int")
		}
		b.p(hparse.KParenR)
		b.braces(func() {
			b.pick("o", "q")
			b.p(hparse.KParenL)
			b.pick("x", "r", "d", "l", "in", "e", "c", "one", "st", "nn")
			b.p(hparse.KColon)
			switch b.alt(4) {
			case 0:
				b.variable()
			case 1:
				b.p(hparse.KBracketL)
				b.variable()
				b.p(hparse.KBracketR)
			case 2:
				b.p(hparse.KBraceL)
				b.pick("f", "p", "g")
				b.p(hparse.KColon)
				b.variable()
				b.p(hparse.KBraceR)
			case 3:
				b.lit(hparse.KInt, "1")
			}
			b.p(hparse.KParenR)
			b.braces(func() { b.n("a") })
		})
	},
	// 2: fragments, spreads and type conditions
	func(b *B) {
		spread := func() {
			b.p(hparse.KSpread)
			b.pick("A", "B", "C")
		}
		b.braces(func() {
			switch b.altN("top", 3) {
			case 0:
				spread()
			case 1:
				b.n("a")
			case 2:
				b.n("i")
				b.braces(func() { spread() })
			}
			if b.altN("inline", 2) == 1 {
				b.n("u")
				b.braces(func() {
					b.p(hparse.KSpread)
					b.n("on")
					b.pick("Obj", "Iface", "Query", "Int", "Missing")
					b.braces(func() { b.pick("id", "zz") })
				})
			}
		})
		b.ns("fragment", "A", "on")
		b.pick("Query", "Obj", "Iface", "Un", "Int", "Missing")
		b.braces(func() {
			b.pick("id", "zz")
			if b.altN("aspread", 2) == 1 {
				spread()
			}
		})
		if b.altN("frag2", 2) == 1 {
			b.n("fragment")
			b.pick("A", "B")
			b.n("on")
			b.pick("Obj", "Query")
			b.braces(func() {
				b.n("a")
				if b.altN("bspread", 2) == 1 {
					spread()
				}
			})
		}
	},
	// 3: field merging below an interface
	func(b *B) {
		fld := func(withSub bool) string {
			if b.alt(2) == 1 {
				b.pick("p", "q")
				b.p(hparse.KColon)
			}
			nm := b.pick("a", "id", "s", "n", "x", "o")
			return nm
		}
		b.braces(func() {
			b.n("i")
			b.braces(func() {
				b.n("id")
				b.p(hparse.KSpread)
				b.n("on")
				b.pick("Obj", "Obj2", "Iface")
				b.braces(func() { fld(false) })
				b.p(hparse.KSpread)
				b.n("on")
				b.pick("Obj", "Obj2", "Iface")
				b.braces(func() { fld(false) })
			})
		})
	},
	// 4: arguments of two same-named fields
	func(b *B) {
		b.braces(func() {
			b.n("i")
			b.braces(func() {
				b.p(hparse.KSpread)
				b.n("on")
				b.n("Obj")
				b.braces(func() {
					for k := 0; k < 2; k++ {
						if b.alt(2) == 1 {
							b.n("p")
							b.p(hparse.KColon)
						}
						b.n("x")
						if b.alt(2) == 1 {
							b.p(hparse.KParenL)
							b.pick("k", "l", "in")
							b.p(hparse.KColon)
							switch b.alt(5) {
							case 0:
								b.lit(hparse.KInt, "1")
							case 1:
								b.lit(hparse.KInt, "2")
							case 2:
								b.p(hparse.KBracketL)
								b.lit(hparse.KInt, "1")
								b.p(hparse.KBracketR)
							case 3:
								b.p(hparse.KBracketL)
								b.lit(hparse.KInt, "2")
								b.p(hparse.KBracketR)
							case 4:
								b.p(hparse.KBraceL)
								b.n("f")
								b.p(hparse.KColon)
								b.lit(hparse.KInt, "1")
								b.p(hparse.KBraceR)
							}
							b.p(hparse.KParenR)
						}
					}
				})
			})
		})
	},
	// 5: directives on a field (one or two), names symbolic
	func(b *B) {
		b.braces(func() {
			b.n("a")
			b.p(hparse.KAt)
			b.pick("d", "rep", "onq", "skip", "zz", "req", "repeatable")
			if b.alt(2) == 1 {
				b.p(hparse.KAt)
				b.pick("d", "rep", "skip", "repeatable")
			}
		})
	},
	// 6: one directive with an argument, at a field, on the operation, or on an inline fragment
	func(b *B) {
		dir := func() {
			b.p(hparse.KAt)
			b.pick("d", "rep", "onq", "skip", "req", "zz")
			if b.alt(2) == 1 {
				b.p(hparse.KParenL)
				b.pick("x", "if", "zz")
				b.p(hparse.KColon)
				switch b.alt(3) {
				case 0:
					b.lit(hparse.KInt, "1")
				case 1:
					b.n("true")
				case 2:
					b.n("null")
				}
				b.p(hparse.KParenR)
			}
		}
		switch b.alt(3) {
		case 0:
			b.braces(func() { b.n("a"); dir() })
		case 1:
			b.n("query")
			dir()
			b.braces(func() { b.n("a") })
		case 2:
			b.braces(func() {
				b.p(hparse.KSpread)
				dir()
				b.braces(func() { b.n("a") })
			})
		}
	},
	// 7: operations: kinds, names, subscriptions
	func(b *B) {
		op := func() {
			kind := b.alt(4)
			switch kind {
			case 0:
			case 1:
				b.n("query")
			case 2:
				b.n("mutation")
			case 3:
				b.n("subscription")
			}
			if kind > 0 && b.alt(2) == 1 {
				b.pick("A", "B")
			}
			b.braces(func() {
				b.pick("a", "b", "m", "__typename", "o")
				if b.alt(2) == 1 {
					b.pick("a", "b", "__typename")
				}
			})
		}
		op()
		if b.alt(2) == 1 {
			op()
		}
	},
	// 8: introspection depth
	func(b *B) {
		b.braces(func() {
			b.pick("__schema", "__type", "a")
			depth := 5
			var rec func(d int)
			rec = func(d int) {
				b.braces(func() {
					b.pick("fields", "interfaces", "possibleTypes", "inputFields", "type", "types", "ofType", "name")
					if d > 1 {
						rec(d - 1)
					}
				})
			}
			rec(depth)
		})
	},
	// 10 (appended below): names chosen so that several schema names are equally
	// close - the "Did you mean" code then has ties to order
	// 9: nested selections, leafs, unknown fields
	func(b *B) {
		b.braces(func() {
			b.pick("a", "o", "i", "u", "list", "zz", "__typename", "__schema")
			if b.alt(2) == 1 {
				b.braces(func() {
					b.pick("a", "id", "o", "zz", "__typename")
					if b.alt(2) == 1 {
						b.braces(func() { b.pick("a", "id") })
					}
				})
			}
		})
	},
	// 10: misspelt names with tied suggestion candidates (Obj3: Obj/Obj2; In2: In/Int/ID/One/Un)
	func(b *B) {
		b.braces(func() {
			switch b.altN("where", 3) {
			case 0: // fragment definition on an unknown type
				b.n("a")
				b.p(hparse.KSpread)
				b.n("A")
			case 1: // unknown field with several near misses (a, s / id, i)
				b.pick("ax", "ix", "a")
			case 2: // unknown argument
				b.n("o")
				b.p(hparse.KParenL)
				b.pick("ix", "ex", "x")
				b.p(hparse.KColon)
				b.lit(hparse.KInt, "1")
				b.p(hparse.KParenR)
				b.braces(func() { b.n("a") })
			}
		})
		b.ns("fragment", "A", "on")
		b.pick("Obj", "Obj3", "In2", "Missing")
		b.braces(func() { b.pick("id", "ic") })
	},
	// 11: the same two named fragments meet twice - under mutually exclusive object
	// parents (different fields behind one alias are fine there if the types agree) and
	// side by side (where they are not) - in either order, or only one of the two
	func(b *B) {
		exclusive := func() {
			b.n("i")
			b.braces(func() {
				b.p(hparse.KSpread)
				b.ns("on", "Obj")
				b.braces(func() {
					b.n("o")
					b.braces(func() { b.p(hparse.KSpread); b.n("FA") })
				})
				b.p(hparse.KSpread)
				b.ns("on", "Obj2")
				b.braces(func() {
					b.n("o")
					b.braces(func() { b.p(hparse.KSpread); b.n("FB") })
				})
			})
		}
		together := func() {
			b.n("o")
			b.braces(func() {
				b.n("o")
				b.braces(func() {
					b.p(hparse.KSpread)
					b.n("FA")
					b.p(hparse.KSpread)
					b.n("FB")
				})
			})
		}
		b.braces(func() {
			switch b.altN("order", 4) {
			case 0:
				exclusive()
				together()
			case 1:
				together()
				exclusive()
			case 2:
				exclusive()
			case 3:
				together()
			}
		})
		for _, f := range []string{"FA", "FB"} {
			b.ns("fragment", f, "on", "Obj")
			b.braces(func() {
				b.pick("p", "q")
				b.p(hparse.KColon)
				b.pick("a", "b", "s")
			})
		}
	},
	// 12: two defined fragments spread side by side (at the root or below a field); each
	// may spread a further fragment - the other one, itself, or an undefined one - directly
	// or inside an inline fragment
	func(b *B) {
		pair := func() {
			b.p(hparse.KSpread)
			b.n("FA")
			b.p(hparse.KSpread)
			b.n("FB")
		}
		onType := "Query"
		if b.altN("where", 2) == 1 {
			onType = "Obj"
			b.braces(func() { b.n("o"); b.braces(pair) })
		} else {
			b.braces(pair)
		}
		inner := func(field string) {
			b.n(field)
			switch b.alt(3) {
			case 0:
			case 1:
				b.p(hparse.KSpread)
				b.pick("FA", "FB", "FC")
			case 2:
				b.p(hparse.KSpread)
				b.ns("on", onType)
				b.braces(func() { b.p(hparse.KSpread); b.pick("FA", "FB", "FC") })
			}
		}
		b.ns("fragment", "FA", "on", onType)
		b.braces(func() { inner("a") })
		b.ns("fragment", "FB", "on", onType)
		b.braces(func() { inner("s") })
	},
	// 13: one argument position used twice in a document, with a defaulted and a plain
	// variable, literals, null, or left out
	func(b *B) {
		b.ns("query", "Q")
		b.p(hparse.KParenL, hparse.KDollar)
		b.n("v")
		b.p(hparse.KColon)
		b.n("Int")
		b.p(hparse.KEquals)
		b.lit(hparse.KInt, "1")
		b.p(hparse.KDollar)
		b.n("u")
		b.p(hparse.KColon)
		b.n("Int")
		b.p(hparse.KBang) // non-null: usable at r, so that documents using both variables are valid
		b.p(hparse.KParenR)
		b.braces(func() {
			for _, alias := range []string{"x", "y"} {
				b.n(alias)
				b.p(hparse.KColon)
				b.n("q")
				switch b.alt(5) {
				case 0: // argument left out
				case 1:
					b.p(hparse.KParenL)
					b.n("r")
					b.p(hparse.KColon, hparse.KDollar)
					b.n("v")
					b.p(hparse.KParenR)
				case 2:
					b.p(hparse.KParenL)
					b.n("r")
					b.p(hparse.KColon, hparse.KDollar)
					b.n("u")
					b.p(hparse.KParenR)
				case 3:
					b.p(hparse.KParenL)
					b.n("r")
					b.p(hparse.KColon)
					b.lit(hparse.KInt, "1")
					b.p(hparse.KParenR)
				case 4:
					b.p(hparse.KParenL)
					b.n("r")
					b.p(hparse.KColon)
					b.n("null")
					b.p(hparse.KParenR)
				}
				b.braces(func() { b.n("a") })
			}
		})
	},
	// 14: a variable used bare, or only inside a list / object literal (small: for the
	// harnesses that validate a document many times)
	func(b *B) {
		b.ns("query", "Q")
		b.p(hparse.KParenL, hparse.KDollar)
		b.n("v")
		b.p(hparse.KColon)
		b.pick("Int", "String")
		b.p(hparse.KParenR)
		b.braces(func() {
			b.n("o")
			b.p(hparse.KParenL)
			b.pick("l", "in", "x", "ll")
			b.p(hparse.KColon)
			switch b.alt(6) {
			case 0:
				b.variable()
			case 1:
				b.p(hparse.KBracketL)
				b.variable()
				b.p(hparse.KBracketR)
			case 2:
				b.p(hparse.KBracketL)
				b.lit(hparse.KInt, "1")
				b.variable()
				b.p(hparse.KBracketR)
			case 3:
				b.p(hparse.KBraceL)
				b.n("f")
				b.p(hparse.KColon)
				b.variable()
				b.p(hparse.KBraceR)
			case 4:
				b.p(hparse.KBraceL)
				b.ns("f")
				b.p(hparse.KColon)
				b.lit(hparse.KInt, "1")
				b.n("n")
				b.p(hparse.KColon, hparse.KBraceL)
				b.n("f")
				b.p(hparse.KColon)
				b.variable()
				b.p(hparse.KBraceR, hparse.KBraceR)
			case 5:
				b.p(hparse.KBracketL, hparse.KBracketL)
				b.variable()
				b.p(hparse.KBracketR, hparse.KBracketR)
			}
			b.p(hparse.KParenR)
			b.braces(func() { b.n("a") })
		})
	},
	// 15: a variable in a directive argument at every directive location of an executable
	// document (operation, field, inline fragment, fragment spread, fragment definition),
	// the variable also used by a field argument
	func(b *B) {
		dir := func() {
			b.p(hparse.KAt)
			b.pick("d", "rep")
			b.p(hparse.KParenL)
			b.n("x")
			b.p(hparse.KColon)
			switch b.alt(3) {
			case 0:
				b.variable()
			case 1:
				b.lit(hparse.KInt, "1")
			case 2:
				b.p(hparse.KBracketL)
				b.variable()
				b.p(hparse.KBracketR)
			}
			b.p(hparse.KParenR)
		}
		site := b.altN("site", 5)
		b.ns("query", "Q")
		b.p(hparse.KParenL, hparse.KDollar)
		b.n("v")
		b.p(hparse.KColon)
		b.pick("Int", "String")
		b.p(hparse.KParenR)
		if site == 0 {
			dir()
		}
		b.braces(func() {
			b.n("o")
			b.p(hparse.KParenL)
			b.n("x")
			b.p(hparse.KColon)
			b.variable()
			b.p(hparse.KParenR)
			b.braces(func() { b.n("a") })
			switch site {
			case 1:
				b.n("a")
				dir()
			case 2:
				b.p(hparse.KSpread)
				dir()
				b.braces(func() { b.n("s") })
			case 3:
				b.p(hparse.KSpread)
				b.n("F")
				dir()
			case 4:
				b.p(hparse.KSpread)
				b.n("F")
			}
		})
		if site >= 3 {
			b.ns("fragment", "F", "on", "Query")
			if site == 4 {
				dir()
			}
			b.braces(func() { b.n("s") })
		}
	},
	// 16: mutually recursive fragments whose bodies hold a same-named field with a nested spread
	// (the merge rule compares sub-selections while it is following nested spreads)
	func(b *B) {
		spread := func(opts ...string) {
			b.p(hparse.KSpread)
			b.pick(opts...)
		}
		body := func(next ...string) {
			b.braces(func() {
				b.n("o")
				b.braces(func() {
					if b.alt(2) == 0 {
						spread("C", "A")
					} else {
						b.n("a")
					}
				})
				spread(next...)
			})
		}
		b.braces(func() {
			b.n("o")
			b.braces(func() { b.n("a") })
			spread("A", "B")
		})
		b.ns("fragment", "A", "on", "Query")
		body("B", "C", "A")
		b.ns("fragment", "B", "on", "Query")
		body("A", "C")
		b.ns("fragment", "C", "on", "Obj")
		b.braces(func() { b.n("a") })
	},
	// 17: introspection depth through a fragment spread twice at different depths (either order)
	func(b *B) {
		spreadF := func() { b.p(hparse.KSpread); b.n("F") }
		lvl := func(inner func()) {
			b.pick("fields", "type", "ofType", "interfaces")
			b.braces(inner)
		}
		first := b.alt(2)
		b.braces(func() {
			b.pick("__schema", "__type")
			b.braces(func() {
				b.n("types")
				b.braces(func() {
					if first == 0 {
						spreadF()
					}
					lvl(func() {
						lvl(func() {
							if b.alt(2) == 0 {
								spreadF()
							} else {
								b.n("name")
							}
						})
					})
					if first == 1 {
						spreadF()
					}
				})
			})
		})
		b.ns("fragment", "F", "on", "__Type")
		b.braces(func() {
			b.n("name")
			b.pick("fields", "interfaces", "name", "ofType")
			if b.alt(2) == 0 {
				b.braces(func() { b.n("name") })
			}
		})
	},
}
