package hval

// C07: the loader accepts exactly the well-formed type systems, and what it
// returns is closed. C17: the verdict and the schema do not depend on the order
// of the definitions or on how they are distributed over sources.

import (
	"strconv"

	"verifh/hparse"
	"verifh/verifrt"

	"github.com/vektah/gqlparser/v2/ast"
	"github.com/vektah/gqlparser/v2/gqlerror"
	"github.com/vektah/gqlparser/v2/parser"
	"github.com/vektah/gqlparser/v2/validator"
)

func parsePrelude() *ast.SchemaDocument {
	d, err := parser.ParseSchema(validator.Prelude)
	if err != nil {
		panic("prelude does not parse")
	}
	return d
}

// mergeSources is parser.ParseSchemas with the prelude already parsed: one
// parse per source, merged in order (what validator.LoadSchema does).
func mergeSources(pre *ast.SchemaDocument, names []string, groups [][]hparse.Tok) *ast.SchemaDocument {
	doc := &ast.SchemaDocument{}
	doc.Merge(pre)
	for i, g := range groups {
		src := hparse.InstallNamed(names[i], g)
		d, err := parser.ParseSchema(src)
		if err != nil {
			verifrt.Fail("H.shape-does-not-parse")
		}
		doc.Merge(d)
	}
	return doc
}

// schemaVerdicts: the reference verdict, and the verdict under each single
// listed departure. All of them are computed before the loader runs, because
// the loader merges extensions into the definitions it is given and appends
// the introspection fields to the query root.
type schemaVerdicts struct{ strict, argCompatible, enumNames bool }

func refVerdicts(doc *ast.SchemaDocument) (schemaVerdicts, []string) {
	r := RefSchema(doc, SLib{})
	other := len(r.Why) - r.ArgOnly - r.EnumOnly // failures no listed departure removes
	return schemaVerdicts{
		strict:        len(r.Why) == 0,
		argCompatible: other == 0 && r.EnumOnly == 0,
		enumNames:     other == 0 && r.ArgOnly == 0,
	}, r.Why
}

func attributeSchema(v schemaVerdicts, accepted bool) {
	if v.strict == accepted || v.strict {
		return
	}
	verifrt.Known("KF-C07-interface-argument-compatible", v.argCompatible == accepted)
	verifrt.Known("KF-C07-enum-value-reserved-name", v.enumNames == accepted)
}

// SchemaLoadRef: C07 (and C02 for the loader: any panic is reported).
func SchemaLoadRef() {
	verifrt.SetOpt("merge", 0)
	verifrt.SetOpt("unwind", 300)
	pre := parsePrelude()
	verifrt.Commit()
	s := &SB{}
	SchemaShapes[verifrt.Param("shape", 0)](s)
	doc := mergeSources(pre, []string{"stream.graphql"}, [][]hparse.Tok{s.toks})
	v, why := refVerdicts(doc)
	ok := v.strict
	if len(why) > 0 {
		verifrt.Watch("ref.why", why[0])
	}
	schema, err := validator.ValidateSchemaDocument(doc)
	verifrt.Watch("ref.ok", ok)
	attributeSchema(v, err == nil)
	verifrt.Assert((err == nil) == ok, "C07.loads-iff-well-formed")
	if err != nil {
		verifrt.Cover("C07.rejected")
		wellFormedLoadError(err, []string{"stream.graphql", "prelude.graphql"})
		return
	}
	verifrt.Cover("C07.loaded")
	closed(schema, doc)
}

func wellFormedLoadError(err error, files []string) {
	e, isG := err.(*gqlerror.Error)
	verifrt.Assert(isG && e != nil, "C17.error-type")
	if !isG || e == nil {
		return
	}
	verifrt.Assert(len(e.Message) > 0, "C17.error-message")
	file, _ := e.Extensions["file"].(string)
	found := false
	for _, f := range files {
		if f == file {
			found = true
		}
	}
	verifrt.Assert(found, "C17.error-names-a-source")
}

var builtinTypes = []string{"Int", "Float", "String", "Boolean", "ID", "__Schema", "__Type", "__Field", "__InputValue", "__EnumValue", "__Directive", "__TypeKind", "__DirectiveLocation"}
var builtinDirs = []string{"include", "skip", "deprecated", "specifiedBy"}

func namesOf(ds []*ast.Definition) ([]string, bool) {
	var out []string
	for _, d := range ds {
		if d == nil {
			return nil, false
		}
		out = append(out, d.Name)
	}
	return out, true
}

func sameNameSet(a, b []string) bool {
	for _, x := range a {
		if !containsName(b, x) {
			return false
		}
	}
	for _, x := range b {
		if !containsName(a, x) {
			return false
		}
	}
	return true
}

func containsName(l []string, n string) bool {
	for _, x := range l {
		if x == n {
			return true
		}
	}
	return false
}

// closed: the second half of C07.
func closed(s *ast.Schema, doc *ast.SchemaDocument) {
	for _, n := range builtinTypes {
		verifrt.Assert(s.Types[n] != nil, "C07.builtin-types-present")
	}
	for _, n := range builtinDirs {
		verifrt.Assert(s.Directives[n] != nil, "C07.builtin-directives-present")
	}
	if s.Query != nil {
		verifrt.Cover("C07.query-root")
		verifrt.Assert(s.Query.Fields.ForName("__schema") != nil && s.Query.Fields.ForName("__type") != nil, "C07.introspection-fields")
	}
	expPossible := map[string][]string{}
	expImplements := map[string][]string{}
	for name, d := range s.Types {
		verifrt.Assert(d != nil && d.Name == name, "C07.type-index")
		if d == nil {
			return
		}
		for _, f := range d.Fields {
			t := s.Types[f.Type.Name()]
			verifrt.Assert(t != nil, "C07.field-type-exists")
			if t != nil {
				if d.Kind == ast.InputObject {
					verifrt.Assert(isInputKind(t.Kind), "C07.input-position")
				} else {
					verifrt.Assert(isOutputKind(t.Kind), "C07.output-position")
				}
			}
			for _, a := range f.Arguments {
				at := s.Types[a.Type.Name()]
				verifrt.Assert(at != nil && isInputKind(at.Kind), "C07.argument-type")
			}
			for _, dir := range f.Directives {
				verifrt.Assert(dir.Definition != nil && s.Directives[dir.Name] == dir.Definition, "C07.directive-linked")
			}
		}
		for _, dir := range d.Directives {
			verifrt.Assert(dir.Definition != nil && s.Directives[dir.Name] == dir.Definition, "C07.directive-linked")
		}
		for _, in := range d.Interfaces {
			t := s.Types[in]
			verifrt.Assert(t != nil && t.Kind == ast.Interface, "C07.interface-exists")
			expPossible[in] = append(expPossible[in], name)
			expImplements[name] = append(expImplements[name], in)
		}
		for _, m := range d.Types {
			t := s.Types[m]
			verifrt.Assert(t != nil && t.Kind == ast.Object, "C07.union-member-object")
			expPossible[name] = append(expPossible[name], m)
			expImplements[m] = append(expImplements[m], name)
		}
		if d.Kind == ast.Object {
			expPossible[name] = append(expPossible[name], name)
		}
		switch d.Kind {
		case ast.Object, ast.Interface, ast.InputObject:
			verifrt.Assert(len(d.Fields) > 0, "C07.non-empty")
		case ast.Enum:
			verifrt.Assert(len(d.EnumValues) > 0, "C07.non-empty")
		}
	}
	for name := range s.Types {
		got, ok := namesOf(s.PossibleTypes[name])
		verifrt.Assert(ok, "C07.possible-types-nil-entry")
		if s.Types[name].Kind == ast.InputObject {
			// the loader lists an input object as its own possible type; nothing reads it
			got2 := got[:0:0]
			for _, g := range got {
				if g != name {
					got2 = append(got2, g)
				}
			}
			got = got2
		}
		verifrt.Assert(sameNameSet(got, expPossible[name]), "C07.possible-types-exact")
		gi, ok2 := namesOf(s.Implements[name])
		verifrt.Assert(ok2, "C07.implements-nil-entry")
		verifrt.Assert(sameNameSet(gi, expImplements[name]), "C07.implements-exact")
	}
	for name := range s.PossibleTypes {
		verifrt.Assert(s.Types[name] != nil, "C07.possible-types-key")
	}
	for name := range s.Implements {
		verifrt.Assert(s.Types[name] != nil, "C07.implements-key")
	}
	// roots
	var q, m, sub string
	set := func(defs ast.SchemaDefinitionList) {
		for _, sd := range defs {
			for _, o := range sd.OperationTypes {
				switch o.Operation {
				case ast.Query:
					q = o.Type
				case ast.Mutation:
					m = o.Type
				case ast.Subscription:
					sub = o.Type
				}
			}
		}
	}
	set(doc.Schema)
	set(doc.SchemaExtension)
	if len(doc.Schema) == 0 {
		def := func(cur *string, n string) {
			if *cur == "" && s.Types[n] != nil {
				*cur = n
			}
		}
		def(&q, "Query")
		def(&m, "Mutation")
		def(&sub, "Subscription")
	}
	rootName := func(d *ast.Definition) string {
		if d == nil {
			return ""
		}
		return d.Name
	}
	verifrt.Assert(rootName(s.Query) == q && rootName(s.Mutation) == m && rootName(s.Subscription) == sub, "C07.roots")
	if len(doc.Schema) == 1 && s.Types["Mutation"] != nil && s.Mutation == nil {
		verifrt.Cover("C07.type-named-mutation-is-not-a-root")
	}
}

// sameSchema: "" when the two schemas have the same types (fields, values,
// members and interfaces as sets), relations, roots and directives.
func sameSchema(a, b *ast.Schema) string {
	if len(a.Types) != len(b.Types) {
		return "number of types"
	}
	for n, da := range a.Types {
		db := b.Types[n]
		if db == nil {
			return "type " + n
		}
		if da.Kind != db.Kind || len(da.Fields) != len(db.Fields) || len(da.EnumValues) != len(db.EnumValues) {
			return "shape of " + n
		}
		for _, fa := range da.Fields {
			fb := db.Fields.ForName(fa.Name)
			if fb == nil || fa.Type.String() != fb.Type.String() || len(fa.Arguments) != len(fb.Arguments) || len(fa.Directives) != len(fb.Directives) {
				return "field " + n + "." + fa.Name
			}
			for i, aa := range fa.Arguments { // by position: the loader accepts two arguments of one name
				ab := fb.Arguments[i]
				if aa.Name != ab.Name || aa.Type.String() != ab.Type.String() || (aa.DefaultValue == nil) != (ab.DefaultValue == nil) {
					return "argument " + n + "." + fa.Name + "." + aa.Name
				}
			}
		}
		for _, va := range da.EnumValues {
			if db.EnumValues.ForName(va.Name) == nil {
				return "enum value " + n + "." + va.Name
			}
		}
		if !sameNameSet(da.Interfaces, db.Interfaces) || !sameNameSet(da.Types, db.Types) {
			return "members of " + n
		}
		if len(da.Directives) != len(db.Directives) {
			return "directives of " + n
		}
		pa, _ := namesOf(a.PossibleTypes[n])
		pb, _ := namesOf(b.PossibleTypes[n])
		ia, _ := namesOf(a.Implements[n])
		ib, _ := namesOf(b.Implements[n])
		if !sameNameSet(pa, pb) || !sameNameSet(ia, ib) {
			return "relations of " + n
		}
	}
	if len(a.Directives) != len(b.Directives) {
		return "number of directives"
	}
	for n, da := range a.Directives {
		db := b.Directives[n]
		if db == nil || len(da.Arguments) != len(db.Arguments) || len(da.Locations) != len(db.Locations) || da.IsRepeatable != db.IsRepeatable {
			return "directive " + n
		}
	}
	name := func(d *ast.Definition) string {
		if d == nil {
			return ""
		}
		return d.Name
	}
	if name(a.Query) != name(b.Query) || name(a.Mutation) != name(b.Mutation) || name(a.Subscription) != name(b.Subscription) {
		return "roots"
	}
	return ""
}

// SchemaOrder: C17. The same definitions (same symbolic names) are loaded in
// the written order from one source, and in another order / distribution.
//
//	order: 0 reversed, 1..n-1 rotations, then every transposition (i<j)
//	split: 0 one source, 1 one source per definition, 2+c two sources cut after definition c
func SchemaOrder() {
	verifrt.SetOpt("merge", 0)
	verifrt.SetOpt("unwind", 300)
	pre1, pre2 := parsePrelude(), parsePrelude()
	verifrt.Commit()
	s := &SB{}
	SchemaShapes[verifrt.Param("shape", 0)](s)
	segs := s.Segments()
	n := len(segs)
	perm := make([]int, n)
	for i := range perm {
		perm[i] = i
	}
	nOrders := 1 + (n - 1) + n*(n-1)/2
	order := verifrt.Param("order", -1)
	if order < 0 {
		order = verifrt.Split(verifrt.Int("order_of"+strconv.Itoa(nOrders), 0, nOrders-1))
	} else if order >= nOrders {
		verifrt.Fail("H.no-such-order")
	}
	switch {
	case order == 0:
		for i := range perm {
			perm[i] = n - 1 - i
		}
	case order < n:
		for i := range perm {
			perm[i] = (i + order) % n
		}
	default:
		k := order - n
		for i := 0; i < n; i++ {
			for j := i + 1; j < n; j++ {
				if k == 0 {
					perm[i], perm[j] = j, i
				}
				k--
			}
		}
	}
	split := verifrt.Param("split", 0)
	var names []string
	var groups [][]hparse.Tok
	add := func(name string, idx []int) {
		var g []hparse.Tok
		for _, i := range idx {
			g = append(g, segs[i]...)
		}
		names = append(names, name)
		groups = append(groups, g)
	}
	switch {
	case split == 0:
		add("a.graphql", perm)
	case split == 1:
		for k, i := range perm {
			add("s"+strconv.Itoa(k)+".graphql", []int{i})
		}
	default:
		c := split - 1 // 1..n-1
		if c >= n {
			verifrt.Fail("H.no-such-cut")
		}
		add("a.graphql", perm[:c])
		add("b.graphql", perm[c:])
	}
	docA := mergeSources(pre1, []string{"a.graphql"}, [][]hparse.Tok{s.toks})
	sa, ea := validator.ValidateSchemaDocument(docA)
	docB := mergeSources(pre2, names, groups)
	sb, eb := validator.ValidateSchemaDocument(docB)
	verifrt.Assert((ea == nil) == (eb == nil), "C17.same-verdict")
	if ea != nil || eb != nil {
		verifrt.Cover("C17.both-rejected")
		if eb != nil {
			wellFormedLoadError(eb, append(names, "prelude.graphql"))
		}
		return
	}
	verifrt.Cover("C17.both-loaded")
	diff := sameSchema(sa, sb)
	verifrt.Watch("diff", diff)
	verifrt.Assert(diff == "", "C17.same-schema")
}

// ShapeTokens, ParsePrelude, MergeSources: the type-system documents of this package for
// the formatter harness (package hfmt).
func ShapeTokens(shape int) []hparse.Tok {
	s := &SB{}
	SchemaShapes[shape](s)
	return s.toks
}
func ParsePrelude() *ast.SchemaDocument { return parsePrelude() }
func MergeSources(pre *ast.SchemaDocument, names []string, groups [][]hparse.Tok) *ast.SchemaDocument {
	return mergeSources(pre, names, groups)
}
