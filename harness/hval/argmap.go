package hval

// C15: the argument map of every field and directive of a validated document,
// under a variables map of the form coercion returns, against CoerceArgumentValues.

import (
	"strconv"

	"verifh/verifrt"

	"github.com/vektah/gqlparser/v2/ast"
	"github.com/vektah/gqlparser/v2/validator"
)

// conforming: a value of the form coercion returns for the type.
func conforming(s *ast.Schema, t *ast.Type, depth int) interface{} {
	if t.Elem != nil {
		return []interface{}{conforming(s, t.Elem, depth+1)}
	}
	switch t.NamedType {
	case "Int":
		return int64(5)
	case "Float":
		return int64(2)
	case "Boolean":
		return true
	case "E":
		return "X"
	case "In":
		return map[string]interface{}{"f": int64(1)}
	case "One":
		return map[string]interface{}{"p": int64(1)}
	}
	return "s"
}

// coercedVariables builds a variables map as VariableValues would return it:
// a variable is supplied (a conforming value, or null when its type is
// nullable), or left out, in which case its default is filled in.
func coercedVariables(s *ast.Schema, op *ast.OperationDefinition) map[string]interface{} {
	vars := map[string]interface{}{}
	for i, vd := range op.VariableDefinitions {
		n := 2
		if !vd.Type.NonNull {
			n = 3
		}
		switch verifrt.Split(verifrt.Int("var"+strconv.Itoa(i)+"_of"+strconv.Itoa(n), 0, n-1)) {
		case 0: // left out
			if vd.DefaultValue != nil {
				d, err := vd.DefaultValue.Value(nil)
				if err != nil {
					verifrt.Fail("H.default-not-convertible")
				}
				vars[vd.Variable] = d
			} else if vd.Type.NonNull {
				verifrt.Assume(false) // coercion reports an error
			}
		case 1:
			vars[vd.Variable] = conforming(s, vd.Type, 0)
		case 2:
			vars[vd.Variable] = nil
		}
	}
	return vars
}

// refLiteral: a literal converted as the specification's input coercion does,
// variables inside it substituted.
func refLiteral(v *ast.Value, vars map[string]interface{}) interface{} {
	switch v.Kind {
	case ast.Variable:
		if x, ok := vars[v.Raw]; ok {
			return x
		}
		return nil
	case ast.IntValue:
		n, err := strconv.ParseInt(v.Raw, 10, 64)
		if err != nil {
			return unrepresentable{}
		}
		return n
	case ast.FloatValue:
		return floatLit{v.Raw}
	case ast.StringValue, ast.BlockValue, ast.EnumValue:
		return v.Raw
	case ast.BooleanValue:
		return v.Raw == "true"
	case ast.NullValue:
		return nil
	case ast.ListValue:
		var out []interface{}
		for _, c := range v.Children {
			out = append(out, refLiteral(c.Value, vars))
		}
		return out
	case ast.ObjectValue:
		out := map[string]interface{}{}
		for _, c := range v.Children {
			out[c.Name] = refLiteral(c.Value, vars)
		}
		return out
	}
	return unrepresentable{}
}

type unrepresentable struct{}
type floatLit struct{ raw string }

func hasUnrepresentable(x interface{}) bool {
	switch v := x.(type) {
	case unrepresentable:
		return true
	case []interface{}:
		for _, e := range v {
			if hasUnrepresentable(e) {
				return true
			}
		}
	case map[string]interface{}:
		for _, e := range v {
			if hasUnrepresentable(e) {
				return true
			}
		}
	}
	return false
}

// refArgMap: CoerceArgumentValues.
func refArgMap(defs ast.ArgumentDefinitionList, args ast.ArgumentList, vars map[string]interface{}) (map[string]interface{}, bool) {
	out := map[string]interface{}{}
	bad := false
	for _, d := range defs {
		var val interface{}
		has := false
		if a := args.ForName(d.Name); a != nil {
			if a.Value.Kind == ast.Variable {
				val, has = vars[a.Value.Raw]
			} else {
				val, has = refLiteral(a.Value, vars), true
			}
		}
		if !has && d.DefaultValue != nil {
			val, has = refLiteral(d.DefaultValue, vars), true
		}
		if has {
			out[d.Name] = val
			if hasUnrepresentable(val) {
				bad = true
			}
		}
	}
	return out, bad
}

func sameValue(a, b interface{}) bool {
	switch x := a.(type) {
	case nil:
		return b == nil
	case int64:
		y, ok := b.(int64)
		return ok && x == y
	case bool:
		y, ok := b.(bool)
		return ok && x == y
	case string:
		y, ok := b.(string)
		return ok && x == y
	case floatLit:
		_, ok := b.(float64)
		return ok
	case []interface{}:
		y, ok := b.([]interface{})
		if !ok || len(x) != len(y) {
			return false
		}
		for i := range x {
			if !sameValue(x[i], y[i]) {
				return false
			}
		}
		return true
	case map[string]interface{}:
		y, ok := b.(map[string]interface{})
		if !ok || len(x) != len(y) {
			return false
		}
		for k, v := range x {
			w, present := y[k]
			if !present || !sameValue(v, w) {
				return false
			}
		}
		return true
	}
	return false
}

// customScalarOnly: every argument that holds an unrepresentable literal is of a
// custom scalar type (where validation accepts any literal).
func customScalarOnly(s *ast.Schema, defs ast.ArgumentDefinitionList, args ast.ArgumentList, vars map[string]interface{}) bool {
	for _, d := range defs {
		a := args.ForName(d.Name)
		if a == nil || a.Value.Kind == ast.Variable || !hasUnrepresentable(refLiteral(a.Value, vars)) {
			continue
		}
		td := s.Types[d.Type.Name()]
		if td == nil || td.Kind != ast.Scalar || td.BuiltIn {
			return false
		}
	}
	return true
}

func checkArgMap(s *ast.Schema, what string, defs ast.ArgumentDefinitionList, args ast.ArgumentList, vars map[string]interface{}, get func() map[string]interface{}) {
	want, bad := refArgMap(defs, args, vars)
	// an integer literal outside int64 at a custom scalar, where validation accepts any literal
	verifrt.KnownPanic("KF-C15-int-literal-beyond-int64-panics", bad && customScalarOnly(s, defs, args, vars))
	got := get()
	verifrt.ClearKnown()
	if bad {
		return
	}
	verifrt.Cover("C15." + what + "-argument-map")
	verifrt.Assert(len(got) == len(want), "C15.exactly-the-arguments-with-a-value")
	for k, w := range want {
		g, present := got[k]
		verifrt.Assert(present, "C15.exactly-the-arguments-with-a-value")
		verifrt.Assert(sameValue(w, g), "C15.value-as-prescribed")
		if w == nil {
			verifrt.Cover("C15.explicit-null-kept")
		}
	}
}

func argMapsOf(s *ast.Schema, set ast.SelectionSet, vars map[string]interface{}) {
	for _, sel := range set {
		switch x := sel.(type) {
		case *ast.Field:
			f := x
			if f.Definition != nil {
				checkArgMap(s, "field", f.Definition.Arguments, f.Arguments, vars, func() map[string]interface{} { return f.ArgumentMap(vars) })
			}
			for _, d := range f.Directives {
				dd := d
				checkArgMap(s, "directive", dd.Definition.Arguments, dd.Arguments, vars, func() map[string]interface{} { return dd.ArgumentMap(vars) })
			}
			argMapsOf(s, f.SelectionSet, vars)
		case *ast.InlineFragment:
			for _, d := range x.Directives {
				dd := d
				checkArgMap(s, "directive", dd.Definition.Arguments, dd.Arguments, vars, func() map[string]interface{} { return dd.ArgumentMap(vars) })
			}
			argMapsOf(s, x.SelectionSet, vars)
		}
	}
}

// ArgMap: C15.
func ArgMap() {
	schema, doc, _ := buildDoc()
	errs := validator.Validate(schema, doc)
	if len(errs) != 0 {
		verifrt.Cover("C15.invalid-document-skipped")
		return
	}
	for _, op := range doc.Operations {
		vars := coercedVariables(schema, op)
		for _, d := range op.Directives {
			dd := d
			checkArgMap(schema, "directive", dd.Definition.Arguments, dd.Arguments, vars, func() map[string]interface{} { return dd.ArgumentMap(vars) })
		}
		argMapsOf(schema, op.SelectionSet, vars)
	}
}
