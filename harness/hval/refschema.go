package hval

// Reference type-system checker, written from section 3 of the specification
// (October 2021) and the rules property C07 enumerates. It reads the merged
// *ast.SchemaDocument (prelude + user documents), not the loader's result.

import (
	"strings"

	"github.com/vektah/gqlparser/v2/ast"
)

// SLib: single, named departures from the specification, used only to attribute
// a disagreement to a listed finding.
type SLib struct {
	ArgCompatibleNotIdentical bool // an implementer's argument need only be compatible with the interface's, not identical
	EnumValueNameUnchecked    bool // enum value names may start with "__"
}

type RS struct {
	doc   *ast.SchemaDocument
	lib   SLib
	types map[string]*mtype // merged definitions by name
	order []string
	dirs  map[string]*ast.DirectiveDefinition
	Why   []string
	// failures that one departure alone would remove
	ArgOnly, EnumOnly int
}

// mtype: a definition with its extensions merged (fields etc. in order).
type mtype struct {
	kind       ast.DefinitionKind
	name       string
	builtin    bool
	fields     ast.FieldList
	interfaces []string
	members    []string
	values     ast.EnumValueList
	directives ast.DirectiveList
	defined    bool // has a definition (not only extensions)
}

func (r *RS) fail(why string) { r.Why = append(r.Why, why) }

// failOnly: a failure that exists only because of one listed departure.
func (r *RS) failArg(why string) {
	if !r.lib.ArgCompatibleNotIdentical {
		r.Why = append(r.Why, why)
	}
	r.ArgOnly++
}
func (r *RS) failEnum(why string) {
	if !r.lib.EnumValueNameUnchecked {
		r.Why = append(r.Why, why)
	}
	r.EnumOnly++
}

var builtinDirectives = map[string]bool{"include": true, "skip": true, "deprecated": true, "specifiedBy": true, "defer": true, "oneOf": true}

// RefSchemaOK: does the merged document describe a well-formed type system?
func RefSchemaOK(doc *ast.SchemaDocument, lib SLib) (bool, []string) {
	r := RefSchema(doc, lib)
	return len(r.Why) == 0, r.Why
}

func RefSchema(doc *ast.SchemaDocument, lib SLib) *RS {
	r := &RS{doc: doc, lib: lib, types: map[string]*mtype{}, dirs: map[string]*ast.DirectiveDefinition{}}
	r.run()
	return r
}

func (r *RS) run() {
	// R1 unique type names
	for _, d := range r.doc.Definitions {
		if _, dup := r.types[d.Name]; dup {
			r.fail("R1 type defined twice: " + d.Name)
			continue
		}
		r.types[d.Name] = &mtype{kind: d.Kind, name: d.Name, builtin: d.BuiltIn, fields: append(ast.FieldList(nil), d.Fields...),
			interfaces: append([]string(nil), d.Interfaces...), members: append([]string(nil), d.Types...),
			values: append(ast.EnumValueList(nil), d.EnumValues...), directives: append(ast.DirectiveList(nil), d.Directives...), defined: true}
		r.order = append(r.order, d.Name)
	}
	// R4 extensions extend an existing type of the same kind
	for _, x := range r.doc.Extensions {
		t := r.types[x.Name]
		if t == nil {
			t = &mtype{kind: x.Kind, name: x.Name}
			r.types[x.Name] = t
			r.order = append(r.order, x.Name)
		}
		if t.kind != x.Kind {
			r.fail("R4 extension kind differs: " + x.Name)
			continue
		}
		t.fields = append(t.fields, x.Fields...)
		t.interfaces = append(t.interfaces, x.Interfaces...)
		t.members = append(t.members, x.Types...)
		t.values = append(t.values, x.EnumValues...)
		t.directives = append(t.directives, x.Directives...)
	}
	// R2 unique directive names (a built-in directive may be declared again)
	for _, d := range r.doc.Directives {
		if _, dup := r.dirs[d.Name]; dup && !builtinDirectives[d.Name] {
			r.fail("R2 directive defined twice: " + d.Name)
			continue
		}
		r.dirs[d.Name] = d // a built-in directive declared again replaces the built-in declaration (what the loader does)
	}
	// R13 schema definition and root operation types
	if len(r.doc.Schema) > 1 {
		r.fail("R13 more than one schema definition")
	}
	for _, s := range r.doc.Schema {
		r.rootOps(s)
		r.directives(s.Directives, ast.LocationSchema, "")
	}
	for _, s := range r.doc.SchemaExtension {
		r.rootOps(s)
		r.directives(s.Directives, ast.LocationSchema, "")
	}
	for _, n := range r.order {
		r.definition(r.types[n])
	}
	for _, d := range r.doc.Directives { // every declaration written is checked, also one that is replaced
		r.name(d.Name)
		r.arguments(d.Arguments, d.Name)
	}
}

func (r *RS) rootOps(s *ast.SchemaDefinition) {
	for _, o := range s.OperationTypes {
		if r.types[o.Type] == nil {
			r.fail("R13 root operation type does not exist: " + o.Type)
		}
	}
}

func (r *RS) name(n string) {
	if strings.HasPrefix(n, "__") {
		r.fail("R11 reserved name " + n)
	}
}

func isInputKind(k ast.DefinitionKind) bool {
	return k == ast.Scalar || k == ast.Enum || k == ast.InputObject
}
func isOutputKind(k ast.DefinitionKind) bool {
	return k == ast.Scalar || k == ast.Enum || k == ast.Object || k == ast.Interface || k == ast.Union
}

func (r *RS) definition(t *mtype) {
	if !t.builtin {
		r.name(t.name)
	}
	var loc ast.DirectiveLocation
	switch t.kind {
	case ast.Scalar:
		loc = ast.LocationScalar
	case ast.Object:
		loc = ast.LocationObject
	case ast.Interface:
		loc = ast.LocationInterface
	case ast.Union:
		loc = ast.LocationUnion
	case ast.Enum:
		loc = ast.LocationEnum
	case ast.InputObject:
		loc = ast.LocationInputObject
	}
	r.directives(t.directives, loc, "")
	// R3 unique field names; R10 non-empty
	seen := map[string]bool{}
	for _, f := range t.fields {
		if seen[f.Name] {
			r.fail("R3 field defined twice: " + t.name + "." + f.Name)
		}
		seen[f.Name] = true
		r.name(f.Name)
		td := r.types[f.Type.Name()]
		if td == nil {
			r.fail("R5 undefined type " + f.Type.Name())
		} else if t.kind == ast.InputObject {
			if !isInputKind(td.kind) {
				r.fail("R6 input field of non-input type")
			}
		} else if !isOutputKind(td.kind) {
			r.fail("R6 output field of non-output type")
		}
		if t.kind == ast.InputObject {
			r.directives(f.Directives, ast.LocationInputFieldDefinition, "")
		} else {
			r.directives(f.Directives, ast.LocationFieldDefinition, "")
			r.arguments(f.Arguments, "")
		}
	}
	switch t.kind {
	case ast.Object, ast.Interface, ast.InputObject:
		if len(t.fields) == 0 {
			r.fail("R10 no fields: " + t.name)
		}
	case ast.Enum:
		if len(t.values) == 0 {
			r.fail("R10 no enum values: " + t.name)
		}
		vs := map[string]bool{}
		for _, v := range t.values {
			if v.Name == "true" || v.Name == "false" || v.Name == "null" {
				r.fail("R10 enum value " + v.Name)
			}
			if strings.HasPrefix(v.Name, "__") {
				r.failEnum("R11 reserved enum value name " + v.Name)
			}
			vs[v.Name] = true
			r.directives(v.Directives, ast.LocationEnumValue, "")
		}
	}
	// R9 union members
	ms := map[string]bool{}
	for _, m := range t.members {
		md := r.types[m]
		if md == nil {
			r.fail("R9 undefined union member " + m)
		} else if md.kind != ast.Object {
			r.fail("R9 union member is not an object type")
		}
		ms[m] = true
	}
	// R7 / R8 interfaces
	is := map[string]bool{}
	for _, in := range t.interfaces {
		is[in] = true
		r.implements(t, in)
	}
}

func (r *RS) arguments(args ast.ArgumentDefinitionList, ownDirective string) {
	seen := map[string]bool{}
	for _, a := range args {
		seen[a.Name] = true
		r.name(a.Name)
		td := r.types[a.Type.Name()]
		if td == nil {
			r.fail("R5 undefined type " + a.Type.Name())
		} else if !isInputKind(td.kind) {
			r.fail("R6 argument of non-input type")
		}
		r.directives(a.Directives, ast.LocationArgumentDefinition, ownDirective)
	}
}

// R12
func (r *RS) directives(ds ast.DirectiveList, loc ast.DirectiveLocation, ownDirective string) {
	for _, d := range ds {
		r.name(d.Name)
		if ownDirective != "" && d.Name == ownDirective {
			r.fail("R12 directive applies itself")
			continue
		}
		def := r.dirs[d.Name]
		if def == nil {
			r.fail("R12 undefined directive " + d.Name)
			continue
		}
		ok := false
		for _, l := range def.Locations {
			if l == loc {
				ok = true
			}
		}
		if !ok {
			r.fail("R12 directive not allowed here: " + d.Name)
		}
		for _, a := range d.Arguments {
			found := false
			for _, ad := range def.Arguments {
				if ad.Name == a.Name {
					found = true
				}
			}
			if !found {
				r.fail("R12 undeclared directive argument " + a.Name)
			}
		}
		for _, ad := range def.Arguments {
			if ad.Type.NonNull && ad.DefaultValue == nil {
				var given *ast.Argument
				for _, a := range d.Arguments {
					if a.Name == ad.Name {
						given = a
					}
				}
				if given == nil || given.Value == nil || given.Value.Kind == ast.NullValue {
					r.fail("R12 required directive argument missing: " + ad.Name)
				}
			}
		}
	}
}

// R7 (fields, covariance, arguments) and R8 (transitive interfaces, no cycle)
func (r *RS) implements(t *mtype, in string) {
	it := r.types[in]
	if it == nil {
		r.fail("R7 undefined interface " + in)
		return
	}
	if it.kind != ast.Interface {
		r.fail("R7 not an interface: " + in)
		return
	}
	for _, rf := range it.fields {
		var ff *ast.FieldDefinition
		for _, f := range t.fields {
			if f.Name == rf.Name && ff == nil {
				ff = f
			}
		}
		if ff == nil {
			r.fail("R7 interface field missing: " + rf.Name)
			continue
		}
		if !r.covariant(rf.Type, ff.Type) {
			r.fail("R7 field type not covariant: " + rf.Name)
		}
		for _, ra := range rf.Arguments {
			var fa *ast.ArgumentDefinition
			for _, a := range ff.Arguments {
				if a.Name == ra.Name && fa == nil {
					fa = a
				}
			}
			if fa == nil {
				r.fail("R7 interface argument missing: " + ra.Name)
				continue
			}
			if !sameType(ra.Type, fa.Type) {
				if compatibleT(ra.Type, fa.Type) {
					r.failArg("R7 argument type differs (compatible): " + ra.Name)
				} else {
					r.fail("R7 argument type differs: " + ra.Name)
				}
			}
		}
		for _, fa := range ff.Arguments {
			declared := false
			for _, ra := range rf.Arguments {
				if ra.Name == fa.Name {
					declared = true
				}
			}
			if !declared && fa.Type.NonNull && fa.DefaultValue == nil {
				r.fail("R7 additional argument is required: " + fa.Name)
			}
		}
	}
	for _, tr := range it.interfaces {
		has := false
		for _, x := range t.interfaces {
			if x == tr {
				has = true
			}
		}
		if !has {
			r.fail("R8 must also implement " + tr)
		}
	}
}

func sameType(a, b *ast.Type) bool {
	if a.NonNull != b.NonNull {
		return false
	}
	if (a.Elem != nil) != (b.Elem != nil) {
		return false
	}
	if a.Elem != nil {
		return sameType(a.Elem, b.Elem)
	}
	return a.NamedType == b.NamedType
}

// compatibleT: the specification's AreTypesCompatible (a flows into b).
func compatibleT(a, b *ast.Type) bool {
	if b.NonNull {
		if !a.NonNull {
			return false
		}
		x, y := *a, *b
		x.NonNull, y.NonNull = false, false
		return compatibleT(&x, &y)
	}
	if a.NonNull {
		x := *a
		x.NonNull = false
		return compatibleT(&x, b)
	}
	if b.Elem != nil {
		return a.Elem != nil && compatibleT(a.Elem, b.Elem)
	}
	return a.Elem == nil && a.NamedType == b.NamedType
}

// covariant: IsValidImplementationFieldType(fieldType=actual, implementedFieldType=required)
func (r *RS) covariant(required, actual *ast.Type) bool {
	if actual.NonNull {
		x := *actual
		x.NonNull = false
		if required.NonNull {
			y := *required
			y.NonNull = false
			return r.covariant(&y, &x)
		}
		return r.covariant(required, &x)
	}
	if required.NonNull {
		return false
	}
	if actual.Elem != nil {
		return required.Elem != nil && r.covariant(required.Elem, actual.Elem)
	}
	if required.Elem != nil {
		return false
	}
	if actual.NamedType == required.NamedType {
		return true
	}
	at, rt := r.types[actual.NamedType], r.types[required.NamedType]
	if at == nil || rt == nil {
		return false
	}
	switch rt.kind {
	case ast.Union:
		if at.kind != ast.Object {
			return false
		}
		for _, m := range rt.members {
			if m == at.name {
				return true
			}
		}
	case ast.Interface:
		if at.kind != ast.Object && at.kind != ast.Interface {
			return false
		}
		for _, i := range at.interfaces {
			if i == rt.name {
				return true
			}
		}
	}
	return false
}
