// Package verifrt is the harness runtime. Under the symbolic engine every
// function here is intercepted; compiled natively it replays one concrete
// assignment (a solver model) read from the file named by GOSYM_MODEL.
package verifrt

import (
	"encoding/json"
	"fmt"
	"os"
	"reflect"
	"strconv"
	"unsafe"
)

var (
	model   map[string]uint64
	params  map[string]string
	loaded  bool
	Failed  []string // labels of failed assertions (native mode)
	Covered = map[string]bool{}
)

type modelFile struct {
	Model  map[string]uint64 `json:"model"`
	Params map[string]string `json:"params"`
}

func load() {
	if loaded {
		return
	}
	loaded = true
	model = map[string]uint64{}
	params = map[string]string{}
	if p := os.Getenv("GOSYM_MODEL"); p != "" {
		b, err := os.ReadFile(p)
		if err != nil {
			panic(err)
		}
		var mf modelFile
		if err := json.Unmarshal(b, &mf); err != nil {
			panic(err)
		}
		if mf.Model != nil {
			model = mf.Model
		}
		if mf.Params != nil {
			params = mf.Params
		}
	}
}

// SetModel installs a model directly (used by native tests).
func SetModel(m map[string]uint64, p map[string]string) {
	loaded = true
	model = m
	if model == nil {
		model = map[string]uint64{}
	}
	params = p
	if params == nil {
		params = map[string]string{}
	}
	Failed = nil
	Covered = map[string]bool{}
}

// Native reports whether the harness runs natively (replay) rather than
// under the symbolic engine.
func Native() bool { return true }

// Param returns a harness parameter (case selector) as an int.
func Param(name string, def int) int {
	load()
	if v, ok := params[name]; ok {
		n, err := strconv.Atoi(v)
		if err == nil {
			return n
		}
	}
	return def
}

func Int(name string, lo, hi int) int {
	load()
	v, ok := model[name]
	if !ok {
		return lo
	}
	x := int(int64(v))
	if x < lo || x > hi {
		panic(AssumeFailed{fmt.Sprintf("model value %s=%d outside [%d,%d]", name, x, lo, hi)})
	}
	return x
}

func Byte(name string) byte { load(); return byte(model[name]) }
func Rune(name string) rune { load(); return rune(int32(model[name])) }
func Bool(name string) bool { load(); return model[name] != 0 }

func Bytes(name string, n int) string {
	load()
	b := make([]byte, n)
	for i := range b {
		b[i] = byte(model[name+"["+strconv.Itoa(i)+"]"])
	}
	return string(b)
}

// BytesIn is Bytes with every byte in [lo,hi].
func BytesIn(name string, n int, lo, hi byte) string {
	s := Bytes(name, n)
	for i := 0; i < len(s); i++ {
		if s[i] < lo || s[i] > hi {
			panic(AssumeFailed{fmt.Sprintf("model value %s[%d]=%d outside [%d,%d]", name, i, s[i], lo, hi)})
		}
	}
	return s
}

func Choice(name string, opts ...string) string {
	load()
	i := int(model[name])
	if i >= len(opts) {
		i = 0
	}
	return opts[i]
}

// AssumeFailed is panicked when a replayed model violates an assumption.
type AssumeFailed struct{ Msg string }

func Assume(c bool) {
	if !c {
		panic(AssumeFailed{"assumption false under this model"})
	}
}

func Assert(c bool, label string) {
	if !c {
		Failed = append(Failed, label)
	}
}

func Fail(label string) {
	Failed = append(Failed, label)
	panic(Stop{})
}

// Stop ends a native harness run after Fail.
type Stop struct{}

func Cover(label string)           { Covered[label] = true }
func Known(id string, c bool)      {}
func KnownPanic(id string, c bool) {}
func ClearKnown()                  {}
func Stub(target string, fn any)   {}
func Unstub(target string)         {}

// MergeIn switches state merging on inside every call of the named function (the rest of a
// forking harness keeps forking). No-op natively.
func MergeIn(target string)     {}
func Freeze()                   {}
func SetOpt(name string, v int) {}
func Note(key string, v int)    {}
func Split(x int) int           { return x }
func SplitStr(s string) string  { return s }
func SplitFeasible(x int) int   { return x }
func IsConcrete(x any) bool     { return true }

// Poke sets an integer field (exported or not) of the struct p points to.
func Poke(p any, field string, v int) {
	f := reflect.ValueOf(p).Elem().FieldByName(field)
	f = reflect.NewAt(f.Type(), unsafe.Pointer(f.UnsafeAddr())).Elem()
	f.SetInt(int64(v))
}

// Peek reads an integer field (exported or not) of the struct p points to.
func Peek(p any, field string) int {
	f := reflect.ValueOf(p).Elem().FieldByName(field)
	return int(f.Int())
}

// Info lines are printed by the native replay driver (rendered inputs etc.).
var Info []string

// Show records a rendering of an input for the replay report (no-op under the engine).
func Show(key, val string) {
	l := key + "=" + strconv.Quote(val)
	for _, x := range Info {
		if x == l {
			return
		}
	}
	Info = append(Info, l)
	// printed at once: a replay that hangs or dies never reaches the end of the run
	fmt.Println("INFO " + l)
}

// Watch is a debugging aid (engine prints the value under a counterexample).
func Watch(name string, v any) {}

// ChoiceAt returns opts[i]; under the engine the result stays tied to the
// selector i, so comparisons with constants are single atoms.
func ChoiceAt(i int, opts ...string) string { return opts[i] }

// LiftCall asks the engine to evaluate a pure one-argument function once per
// possible value of a finite-valued argument instead of forking inside it.
func LiftCall(fn string) {}

// Commit tells the engine that everything built so far is shared, read-mostly
// data (cheap to fork over). No-op natively.
func Commit() {}
