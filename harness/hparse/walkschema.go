package hparse

import "github.com/vektah/gqlparser/v2/ast"

// WalkSchema flattens a parsed type-system document (list by list, each in
// source order) into the events RefSchema emits.
func WalkSchema(doc *ast.SchemaDocument) Events {
	var ev Events
	for _, s := range doc.Schema {
		ev.add("SCHEMA", s.Description, "")
		walkDirectives(&ev, s.Directives)
		for _, o := range s.OperationTypes {
			ev.add("OPTYPE", string(o.Operation), o.Type)
		}
	}
	for _, s := range doc.SchemaExtension {
		ev.add("XSCHEMA", "", "")
		walkDirectives(&ev, s.Directives)
		for _, o := range s.OperationTypes {
			ev.add("OPTYPE", string(o.Operation), o.Type)
		}
	}
	for _, d := range doc.Directives {
		ev.add("DIRDEF", d.Name, d.Description)
		walkArgDefs(&ev, d.Arguments)
		if d.IsRepeatable {
			ev.add("REPEATABLE", "", "")
		}
		for _, l := range d.Locations {
			ev.add("LOC", string(l), "")
		}
	}
	for _, d := range doc.Definitions {
		walkDefinition(&ev, "DEF", d)
	}
	for _, d := range doc.Extensions {
		walkDefinition(&ev, "XDEF", d)
	}
	return ev
}

func walkArgDefs(ev *Events, as ast.ArgumentDefinitionList) {
	for _, a := range as {
		ev.add("ARGDEF", a.Name, a.Description)
		walkType(ev, a.Type)
		if a.DefaultValue != nil {
			ev.add("DEFAULT", "", "")
			walkValue(ev, a.DefaultValue)
		}
		walkDirectives(ev, a.Directives)
	}
}

func walkDefinition(ev *Events, tag string, d *ast.Definition) {
	if d == nil {
		ev.add(tag, "<nil>", "")
		return
	}
	ev.add(tag, string(d.Kind), d.Name)
	ev.add("DESC", d.Description, "")
	for _, i := range d.Interfaces {
		ev.add("IMPL", i, "")
	}
	walkDirectives(ev, d.Directives)
	for _, f := range d.Fields {
		ev.add("FIELDDEF", f.Name, f.Description)
		walkArgDefs(ev, f.Arguments)
		walkType(ev, f.Type)
		if f.DefaultValue != nil {
			ev.add("DEFAULT", "", "")
			walkValue(ev, f.DefaultValue)
		}
		walkDirectives(ev, f.Directives)
	}
	for _, m := range d.Types {
		ev.add("MEMBER", m, "")
	}
	for _, v := range d.EnumValues {
		ev.add("ENUMVAL", v.Name, v.Description)
		walkDirectives(ev, v.Directives)
	}
}

// WithoutDescriptions blanks the description carried by definition events (for
// formatter runs with descriptions switched off).
func WithoutDescriptions(ev Events) Events {
	out := append(Events(nil), ev...)
	for i := range out {
		switch out[i].Tag {
		case "SCHEMA", "DESC":
			out[i].A = ""
		case "DIRDEF", "ARGDEF", "FIELDDEF", "ENUMVAL":
			out[i].B = ""
		}
	}
	return out
}

// MergeSchemaDefs folds all schema definitions into one and all schema extensions into one
// (descriptions concatenated, directives first, then operation types, each in source order):
// the form the printer writes them in. A round trip is compared modulo this.
func MergeSchemaDefs(ev Events) Events {
	var out Events
	i := 0
	for _, tag := range []string{"SCHEMA", "XSCHEMA"} {
		var desc string
		var dirs, ops Events
		n := 0
		for i < len(ev) && ev[i].Tag == tag {
			desc += ev[i].A
			n++
			i++
			for i < len(ev) && ev[i].Tag != "SCHEMA" && ev[i].Tag != "XSCHEMA" && ev[i].Tag != "DIRDEF" && ev[i].Tag != "DEF" && ev[i].Tag != "XDEF" {
				if ev[i].Tag == "OPTYPE" {
					ops = append(ops, ev[i])
				} else {
					dirs = append(dirs, ev[i])
				}
				i++
			}
		}
		if n > 0 {
			out = append(out, Event{tag, desc, ""})
			out = append(out, dirs...)
			out = append(out, ops...)
		}
	}
	return append(out, ev[i:]...)
}
