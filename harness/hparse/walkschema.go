package hparse

import "github.com/vektah/gqlparser/v2/ast"

// WalkSchema flattens a parsed type-system document (list by list, each in
// source order) into the events RefSchema emits.
func WalkSchema(doc *ast.SchemaDocument) Events {
	var ev Events
	for _, s := range doc.Schema {
		ev.add("SCHEMA", s.Description, "")
		walkDirectives(&ev, s.Directives)
		for _, o := range s.OperationTypes {
			ev.add("OPTYPE", string(o.Operation), o.Type)
		}
	}
	for _, s := range doc.SchemaExtension {
		ev.add("XSCHEMA", "", "")
		walkDirectives(&ev, s.Directives)
		for _, o := range s.OperationTypes {
			ev.add("OPTYPE", string(o.Operation), o.Type)
		}
	}
	for _, d := range doc.Directives {
		ev.add("DIRDEF", d.Name, d.Description)
		walkArgDefs(&ev, d.Arguments)
		if d.IsRepeatable {
			ev.add("REPEATABLE", "", "")
		}
		for _, l := range d.Locations {
			ev.add("LOC", string(l), "")
		}
	}
	for _, d := range doc.Definitions {
		walkDefinition(&ev, "DEF", d)
	}
	for _, d := range doc.Extensions {
		walkDefinition(&ev, "XDEF", d)
	}
	return ev
}

func walkArgDefs(ev *Events, as ast.ArgumentDefinitionList) {
	for _, a := range as {
		ev.add("ARGDEF", a.Name, a.Description)
		walkType(ev, a.Type)
		if a.DefaultValue != nil {
			ev.add("DEFAULT", "", "")
			walkValue(ev, a.DefaultValue)
		}
		walkDirectives(ev, a.Directives)
	}
}

func walkDefinition(ev *Events, tag string, d *ast.Definition) {
	if d == nil {
		ev.add(tag, "<nil>", "")
		return
	}
	ev.add(tag, string(d.Kind), d.Name)
	ev.add("DESC", d.Description, "")
	for _, i := range d.Interfaces {
		ev.add("IMPL", i, "")
	}
	walkDirectives(ev, d.Directives)
	for _, f := range d.Fields {
		ev.add("FIELDDEF", f.Name, f.Description)
		walkArgDefs(ev, f.Arguments)
		walkType(ev, f.Type)
		if f.DefaultValue != nil {
			ev.add("DEFAULT", "", "")
			walkValue(ev, f.DefaultValue)
		}
		walkDirectives(ev, f.Directives)
	}
	for _, m := range d.Types {
		ev.add("MEMBER", m, "")
	}
	for _, v := range d.EnumValues {
		ev.add("ENUMVAL", v.Name, v.Description)
		walkDirectives(ev, v.Directives)
	}
}
