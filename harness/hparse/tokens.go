// Package hparse: parser harnesses over symbolic token streams.
package hparse

import (
	"strconv"
	"strings"

	"verifh/verifrt"

	"github.com/vektah/gqlparser/v2/ast"
	"github.com/vektah/gqlparser/v2/gqlerror"
	"github.com/vektah/gqlparser/v2/lexer"
)

// Tok is one token of the stream, kind as in lexer.Type.
type Tok struct {
	Kind int
	Val  string
}

const (
	KInvalid     = int(lexer.Invalid)
	KEOF         = int(lexer.EOF)
	KBang        = int(lexer.Bang)
	KDollar      = int(lexer.Dollar)
	KAmp         = int(lexer.Amp)
	KParenL      = int(lexer.ParenL)
	KParenR      = int(lexer.ParenR)
	KSpread      = int(lexer.Spread)
	KColon       = int(lexer.Colon)
	KEquals      = int(lexer.Equals)
	KAt          = int(lexer.At)
	KBracketL    = int(lexer.BracketL)
	KBracketR    = int(lexer.BracketR)
	KBraceL      = int(lexer.BraceL)
	KBraceR      = int(lexer.BraceR)
	KPipe        = int(lexer.Pipe)
	KName        = int(lexer.Name)
	KInt         = int(lexer.Int)
	KFloat       = int(lexer.Float)
	KString      = int(lexer.String)
	KBlockString = int(lexer.BlockString)
	KComment     = int(lexer.Comment)
)

var (
	QueryNames  = []string{"a", "b", "query", "mutation", "subscription", "fragment", "on", "true", "null"}
	SchemaNames = []string{"a", "b", "schema", "scalar", "type", "interface", "union", "enum", "input", "extend", "directive",
		"implements", "repeatable", "on", "query", "FIELD", "OBJECT", "true"}
	StringVals = []string{"x", "on", "implements", ""}
)

// stream state shared with the lexer stub
var (
	stream    []Tok
	streamAt  int
	streamSrc *ast.Source
	// LexCalls counts calls to the lexer (work done by the parser)
	LexCalls int
)

// Alphabet builds the list of concrete tokens a symbolic token is drawn from.
func Alphabet(names []string, withInvalid bool) []Tok {
	var a []Tok
	for k := KBang; k <= KPipe; k++ {
		a = append(a, Tok{Kind: k})
	}
	for _, n := range names {
		a = append(a, Tok{KName, n})
	}
	for _, s := range StringVals {
		a = append(a, Tok{KString, s})
	}
	a = append(a, Tok{KBlockString, "x"}, Tok{KBlockString, "on"}, Tok{KInt, "1"}, Tok{KFloat, "1.5"}, Tok{KComment, "#c"})
	if withInvalid {
		a = append(a, Tok{Kind: KInvalid})
	}
	return a
}

// SymbolicStream draws k tokens from the alphabet (one selector per token).
// first >= 0 pins the first token to that entry of the alphabet (the driver
// splits the longest streams this way).
func SymbolicStream(k int, alpha []Tok, first int) []Tok {
	kinds := make([]int, len(alpha))
	vals := make([]string, len(alpha))
	for i, t := range alpha {
		kinds[i], vals[i] = t.Kind, t.Val
	}
	toks := make([]Tok, k)
	Selectors = nil
	for i := 0; i < k; i++ {
		sel := verifrt.Int("t"+strconv.Itoa(i), 0, len(alpha)-1)
		Selectors = append(Selectors, sel)
		if i == 0 && first >= 0 {
			verifrt.Assume(sel == first)
		}
		toks[i] = Tok{Kind: kinds[sel], Val: verifrt.ChoiceAt(sel, vals...)}
	}
	return toks
}

// Render writes the stream as source text (one token per line, so that
// comments end). Used natively, where the real lexer runs.
func Render(toks []Tok) string {
	var sb strings.Builder
	for _, t := range toks {
		switch t.Kind {
		case KInvalid:
			sb.WriteString("?")
		case KBang:
			sb.WriteString("!")
		case KDollar:
			sb.WriteString("$")
		case KAmp:
			sb.WriteString("&")
		case KParenL:
			sb.WriteString("(")
		case KParenR:
			sb.WriteString(")")
		case KSpread:
			sb.WriteString("...")
		case KColon:
			sb.WriteString(":")
		case KEquals:
			sb.WriteString("=")
		case KAt:
			sb.WriteString("@")
		case KBracketL:
			sb.WriteString("[")
		case KBracketR:
			sb.WriteString("]")
		case KBraceL:
			sb.WriteString("{")
		case KBraceR:
			sb.WriteString("}")
		case KPipe:
			sb.WriteString("|")
		case KName, KInt, KFloat, KComment:
			sb.WriteString(t.Val)
		case KString:
			sb.WriteString(`"` + t.Val + `"`)
		case KBlockString:
			sb.WriteString(`"""` + t.Val + `"""`)
		}
		sb.WriteString("\n")
	}
	return sb.String()
}

// TokPos is the position the stub gives token i.
func TokPos(i int) (start, line, col int) { return 10 * i, i + 1, 1 }

func stubReadToken(l *lexer.Lexer) (lexer.Token, error) {
	LexCalls++
	i := streamAt
	if i >= len(stream) {
		s, ln, c := TokPos(len(stream))
		return lexer.Token{Kind: lexer.EOF, Pos: ast.Position{Start: s, End: s, Line: ln, Column: c, Src: streamSrc}}, nil
	}
	streamAt = i + 1
	t := stream[i]
	s, ln, c := TokPos(i)
	tok := lexer.Token{Kind: lexer.Type(t.Kind), Value: t.Val, Pos: ast.Position{Start: s, End: s + 1, Line: ln, Column: c, Src: streamSrc}}
	if t.Kind == KInvalid {
		tok.Value = ""
		return tok, gqlerror.ErrorLocf(streamSrc.Name, ln, c, "Cannot parse the unexpected character %s.", "?")
	}
	return tok, nil
}

// Install makes the parser read toks: under the engine through a stub of
// (*lexer.Lexer).ReadToken, natively through the rendered text.
func Install(toks []Tok) *ast.Source { return InstallNamed("stream.graphql", toks) }

// InstallNamed is Install with the name of the source chosen by the caller.
func InstallNamed(name string, toks []Tok) *ast.Source {
	src := &ast.Source{Name: name}
	if verifrt.Native() {
		src.Input = Render(toks)
		verifrt.Show("source", src.Input)
		return src
	}
	stream, streamAt, streamSrc, LexCalls = toks, 0, src, 0
	verifrt.Stub("(*github.com/vektah/gqlparser/v2/lexer.Lexer).ReadToken", stubReadToken)
	verifrt.LiftCall("(github.com/vektah/gqlparser/v2/lexer.Type).String")
	verifrt.LiftCall("(github.com/vektah/gqlparser/v2/lexer.Type).Name")
	return src
}

// InsertAtEveryGap: doc is a complete, valid document; k symbolic tokens are
// inserted at a position that is itself case-split over 0..len(doc).
func InsertAtEveryGap(doc []Tok, k int, alpha []Tok) []Tok {
	var g int
	if len(doc) < 64 {
		g = verifrt.Split(verifrt.Int("gap_of"+strconv.Itoa(len(doc)), 0, len(doc)))
	} else {
		// a case split takes at most 64 values: two digits
		hi := verifrt.Split(verifrt.Int("gaphi_of"+strconv.Itoa(len(doc)), 0, len(doc)/32))
		lo := verifrt.Split(verifrt.Int("gaplo_of"+strconv.Itoa(len(doc)), 0, 31))
		g = 32*hi + lo
		if g > len(doc) {
			verifrt.Assume(false)
		}
	}
	out := append([]Tok(nil), doc[:g]...)
	SymStart = g
	out = append(out, SymbolicStream(k, alpha, -1)...)
	return append(out, doc[g:]...)
}

// Selectors are the selectors of the symbolic tokens drawn by the last SymbolicStream,
// SymStart the index of the first of them in the stream handed to the parser.
var (
	Selectors []int
	SymStart  int
)

// Concretize case-splits the stream's symbolic tokens into the alphabet's entries (structure
// becomes concrete per case) and gives the leaves a value of their own again: an ordinary
// name becomes one arbitrary lower-case letter, an integer one arbitrary digit, a string /
// block string / comment one arbitrary character of '#'..'Z' (punctuation incl. # , ( ) @ : = $ &,
// digits, capitals; solver variables "leaf<i>").
func Concretize(toks []Tok, alpha []Tok) []Tok {
	out := append([]Tok(nil), toks...)
	for j, sel := range Selectors {
		i := SymStart + j
		v := verifrt.SplitFeasible(sel)
		out[i] = alpha[v]
	}
	for i := range out {
		out[i] = symbolicLeaf(out[i], i)
	}
	return out
}

func symbolicLeaf(t Tok, i int) Tok {
	// one variable per (position, kind of leaf): the same position holds a name on one path and a string on another
	name := "leaf" + strconv.Itoa(i)
	switch t.Kind {
	case KName:
		name += "n"
	case KInt:
		name += "i"
	case KString:
		name += "s"
	case KBlockString:
		name += "b"
	case KComment:
		name += "c"
	}
	switch {
	case t.Kind == KName && (t.Val == "a" || t.Val == "b"):
		return Tok{KName, verifrt.BytesIn(name, 1, 'a', 'z')}
	case t.Kind == KInt:
		return Tok{KInt, verifrt.BytesIn(name, 1, '0', '9')}
	case t.Kind == KString && t.Val == "x":
		return Tok{KString, verifrt.BytesIn(name, 1, '#', 'Z')}
	case t.Kind == KBlockString && t.Val == "x":
		return Tok{KBlockString, verifrt.BytesIn(name, 1, '#', 'Z')}
	case t.Kind == KComment:
		return Tok{KComment, "#" + verifrt.BytesIn(name, 1, '#', 'Z')}
	}
	return t
}

// Rewind lets a second parse read the same stream again.
func Rewind() { streamAt, LexCalls = 0, 0 }

// Significant drops comments (the reference grammars do not see them).
func Significant(toks []Tok) []Tok {
	var out []Tok
	for _, t := range toks {
		if t.Kind != KComment {
			out = append(out, t)
		}
	}
	return out
}

// StreamFromDoc: a complete document with k arbitrary tokens inserted at every position (k = 0:
// the document as it is), installed for the parser; for harnesses that bring their own documents.
func StreamFromDoc(doc []Tok, k int, alpha []Tok) ([]Tok, *ast.Source) {
	total := len(doc) + k
	verifrt.SetOpt("unwind", total+3)
	verifrt.SetOpt("depth", 8*total+40)
	verifrt.SetOpt("merge", 0)
	toks := doc
	Selectors, SymStart = nil, 0
	if k > 0 {
		toks = InsertAtEveryGap(doc, k, alpha)
	}
	return toks, Install(toks)
}
