// Package hparse: parser harnesses over symbolic token streams.
package hparse

import (
	"strconv"
	"strings"

	"verifh/verifrt"

	"github.com/vektah/gqlparser/v2/ast"
	"github.com/vektah/gqlparser/v2/gqlerror"
	"github.com/vektah/gqlparser/v2/lexer"
)

// Tok is one token of the stream, kind as in lexer.Type.
type Tok struct {
	Kind int
	Val  string
}

const (
	KInvalid     = int(lexer.Invalid)
	KEOF         = int(lexer.EOF)
	KBang        = int(lexer.Bang)
	KDollar      = int(lexer.Dollar)
	KAmp         = int(lexer.Amp)
	KParenL      = int(lexer.ParenL)
	KParenR      = int(lexer.ParenR)
	KSpread      = int(lexer.Spread)
	KColon       = int(lexer.Colon)
	KEquals      = int(lexer.Equals)
	KAt          = int(lexer.At)
	KBracketL    = int(lexer.BracketL)
	KBracketR    = int(lexer.BracketR)
	KBraceL      = int(lexer.BraceL)
	KBraceR      = int(lexer.BraceR)
	KPipe        = int(lexer.Pipe)
	KName        = int(lexer.Name)
	KInt         = int(lexer.Int)
	KFloat       = int(lexer.Float)
	KString      = int(lexer.String)
	KBlockString = int(lexer.BlockString)
	KComment     = int(lexer.Comment)
)

var (
	QueryNames  = []string{"a", "b", "query", "mutation", "subscription", "fragment", "on", "true", "null"}
	SchemaNames = []string{"a", "b", "schema", "scalar", "type", "interface", "union", "enum", "input", "extend", "directive",
		"implements", "repeatable", "on", "query", "FIELD", "OBJECT", "true"}
	StringVals = []string{"x", "on", "implements", ""}
)

// stream state shared with the lexer stub
var (
	stream    []Tok
	streamAt  int
	streamSrc *ast.Source
	// LexCalls counts calls to the lexer (work done by the parser)
	LexCalls int
)

// Alphabet builds the list of concrete tokens a symbolic token is drawn from.
func Alphabet(names []string, withInvalid bool) []Tok {
	var a []Tok
	for k := KBang; k <= KPipe; k++ {
		a = append(a, Tok{Kind: k})
	}
	for _, n := range names {
		a = append(a, Tok{KName, n})
	}
	for _, s := range StringVals {
		a = append(a, Tok{KString, s})
	}
	a = append(a, Tok{KBlockString, "x"}, Tok{KBlockString, "on"}, Tok{KInt, "1"}, Tok{KFloat, "1.5"}, Tok{KComment, "#c"})
	if withInvalid {
		a = append(a, Tok{Kind: KInvalid})
	}
	return a
}

// SymbolicStream draws k tokens from the alphabet (one selector per token).
// first >= 0 pins the first token to that entry of the alphabet (the driver
// splits the longest streams this way).
func SymbolicStream(k int, alpha []Tok, first int) []Tok {
	kinds := make([]int, len(alpha))
	vals := make([]string, len(alpha))
	for i, t := range alpha {
		kinds[i], vals[i] = t.Kind, t.Val
	}
	toks := make([]Tok, k)
	for i := 0; i < k; i++ {
		sel := verifrt.Int("t"+strconv.Itoa(i), 0, len(alpha)-1)
		if i == 0 && first >= 0 {
			verifrt.Assume(sel == first)
		}
		toks[i] = Tok{Kind: kinds[sel], Val: verifrt.ChoiceAt(sel, vals...)}
	}
	return toks
}

// Render writes the stream as source text (one token per line, so that
// comments end). Used natively, where the real lexer runs.
func Render(toks []Tok) string {
	var sb strings.Builder
	for _, t := range toks {
		switch t.Kind {
		case KInvalid:
			sb.WriteString("?")
		case KBang:
			sb.WriteString("!")
		case KDollar:
			sb.WriteString("$")
		case KAmp:
			sb.WriteString("&")
		case KParenL:
			sb.WriteString("(")
		case KParenR:
			sb.WriteString(")")
		case KSpread:
			sb.WriteString("...")
		case KColon:
			sb.WriteString(":")
		case KEquals:
			sb.WriteString("=")
		case KAt:
			sb.WriteString("@")
		case KBracketL:
			sb.WriteString("[")
		case KBracketR:
			sb.WriteString("]")
		case KBraceL:
			sb.WriteString("{")
		case KBraceR:
			sb.WriteString("}")
		case KPipe:
			sb.WriteString("|")
		case KName, KInt, KFloat, KComment:
			sb.WriteString(t.Val)
		case KString:
			sb.WriteString(`"` + t.Val + `"`)
		case KBlockString:
			sb.WriteString(`"""` + t.Val + `"""`)
		}
		sb.WriteString("\n")
	}
	return sb.String()
}

// TokPos is the position the stub gives token i.
func TokPos(i int) (start, line, col int) { return 10 * i, i + 1, 1 }

func stubReadToken(l *lexer.Lexer) (lexer.Token, error) {
	LexCalls++
	i := streamAt
	if i >= len(stream) {
		s, ln, c := TokPos(len(stream))
		return lexer.Token{Kind: lexer.EOF, Pos: ast.Position{Start: s, End: s, Line: ln, Column: c, Src: streamSrc}}, nil
	}
	streamAt = i + 1
	t := stream[i]
	s, ln, c := TokPos(i)
	tok := lexer.Token{Kind: lexer.Type(t.Kind), Value: t.Val, Pos: ast.Position{Start: s, End: s + 1, Line: ln, Column: c, Src: streamSrc}}
	if t.Kind == KInvalid {
		tok.Value = ""
		return tok, gqlerror.ErrorLocf(streamSrc.Name, ln, c, "Cannot parse the unexpected character %s.", "?")
	}
	return tok, nil
}

// Install makes the parser read toks: under the engine through a stub of
// (*lexer.Lexer).ReadToken, natively through the rendered text.
func Install(toks []Tok) *ast.Source { return InstallNamed("stream.graphql", toks) }

// InstallNamed is Install with the name of the source chosen by the caller.
func InstallNamed(name string, toks []Tok) *ast.Source {
	src := &ast.Source{Name: name}
	if verifrt.Native() {
		src.Input = Render(toks)
		verifrt.Show("source", src.Input)
		return src
	}
	stream, streamAt, streamSrc, LexCalls = toks, 0, src, 0
	verifrt.Stub("(*github.com/vektah/gqlparser/v2/lexer.Lexer).ReadToken", stubReadToken)
	verifrt.LiftCall("(github.com/vektah/gqlparser/v2/lexer.Type).String")
	verifrt.LiftCall("(github.com/vektah/gqlparser/v2/lexer.Type).Name")
	return src
}

// InsertAtEveryGap: doc is a complete, valid document; k symbolic tokens are
// inserted at a position that is itself case-split over 0..len(doc).
func InsertAtEveryGap(doc []Tok, k int, alpha []Tok) []Tok {
	g := verifrt.Split(verifrt.Int("gap_of"+strconv.Itoa(len(doc)), 0, len(doc)))
	out := append([]Tok(nil), doc[:g]...)
	out = append(out, SymbolicStream(k, alpha, -1)...)
	return append(out, doc[g:]...)
}

// Rewind lets a second parse read the same stream again.
func Rewind() { streamAt, LexCalls = 0, 0 }

// Significant drops comments (the reference grammars do not see them).
func Significant(toks []Tok) []Tok {
	var out []Tok
	for _, t := range toks {
		if t.Kind != KComment {
			out = append(out, t)
		}
	}
	return out
}
