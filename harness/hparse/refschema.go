package hparse

// Reference recogniser for type-system documents (October 2021, section 3).
// Reuses the value / directive / type productions of refQ (all const here).

var directiveLocations = map[string]bool{
	"QUERY": true, "MUTATION": true, "SUBSCRIPTION": true, "FIELD": true, "FRAGMENT_DEFINITION": true,
	"FRAGMENT_SPREAD": true, "INLINE_FRAGMENT": true, "VARIABLE_DEFINITION": true, "SCHEMA": true, "SCALAR": true,
	"OBJECT": true, "FIELD_DEFINITION": true, "ARGUMENT_DEFINITION": true, "INTERFACE": true, "UNION": true,
	"ENUM": true, "ENUM_VALUE": true, "INPUT_OBJECT": true, "INPUT_FIELD_DEFINITION": true,
}

type refS struct {
	refQ
	schema, xschema, dirs, defs, exts Events
}

// RefSchema parses toks (comments removed) as a type-system document.
func RefSchema(toks []Tok, lib Liberties) (ok bool, ev Events) {
	p := &refS{}
	p.t, p.ok, p.lib = toks, true, lib
	n := 0
	for p.ok && p.kind() != KEOF {
		p.definition()
		n++
	}
	if (n == 0 && !lib.EmptyDocument) || !p.ok {
		return false, nil
	}
	var all Events
	all = append(all, p.schema...)
	all = append(all, p.xschema...)
	all = append(all, p.dirs...)
	all = append(all, p.defs...)
	all = append(all, p.exts...)
	return true, all
}

func (p *refS) description() (string, bool) {
	if p.kind() == KString || p.kind() == KBlockString {
		v := p.val()
		p.i++
		return v, true
	}
	return "", false
}

func (p *refS) definition() {
	desc, hasDesc := p.description()
	if p.kind() != KName {
		p.fail()
		return
	}
	p.ev = nil
	switch p.val() {
	case "schema":
		p.i++
		p.ev.add("SCHEMA", desc, "")
		p.directives(true)
		p.operationTypes(!p.lib.SchemaWithoutOpTypes)
		p.schema = append(p.schema, p.ev...)
	case "directive":
		p.i++
		p.need(KAt)
		p.ev.add("DIRDEF", p.name(), desc)
		p.argumentDefs()
		if p.isKeyword("repeatable") {
			p.i++
			p.ev.add("REPEATABLE", "", "")
		}
		if !p.isKeyword("on") {
			p.fail()
			return
		}
		p.i++
		p.eat(KPipe)
		for {
			l := p.name()
			if p.ok && !directiveLocations[l] {
				p.fail()
			}
			p.ev.add("LOC", l, "")
			if !p.eat(KPipe) {
				break
			}
		}
		p.dirs = append(p.dirs, p.ev...)
	case "extend":
		if hasDesc && !(p.lib.EmptyDescBeforeExtend && desc == "") {
			p.fail()
			return
		}
		p.i++
		p.extension()
	case "scalar", "type", "interface", "union", "enum", "input":
		p.typeDefinition(desc, false)
		p.defs = append(p.defs, p.ev...)
	default:
		p.fail()
	}
}

func (p *refS) operationTypes(required bool) int {
	if !p.eat(KBraceL) {
		if required {
			p.fail()
		}
		return 0
	}
	n := 0
	for p.ok && p.kind() != KBraceR {
		if !(p.isKeyword("query") || p.isKeyword("mutation") || p.isKeyword("subscription")) {
			p.fail()
			return n
		}
		op := p.name()
		p.need(KColon)
		p.ev.add("OPTYPE", op, p.name())
		n++
	}
	p.need(KBraceR)
	if n == 0 {
		p.fail()
	}
	return n
}

// typeDefinition handles the six kinds; ext: extension form (something must be added).
func (p *refS) typeDefinition(desc string, ext bool) {
	kw := p.name()
	tag := "DEF"
	if ext {
		tag = "XDEF"
	}
	added := 0
	switch kw {
	case "scalar":
		p.ev.add(tag, "SCALAR", p.name())
		p.ev.add("DESC", desc, "")
		added += p.constDirectives()
	case "type", "interface":
		k := "OBJECT"
		if kw == "interface" {
			k = "INTERFACE"
		}
		p.ev.add(tag, k, p.name())
		p.ev.add("DESC", desc, "")
		if p.isKeyword("implements") {
			if ext && kw == "interface" && p.lib.NoExtendIfaceImplement {
				p.fail()
				return
			}
			p.i++
			p.eat(KAmp)
			for {
				p.ev.add("IMPL", p.name(), "")
				added++
				if !p.eat(KAmp) {
					break
				}
			}
		}
		added += p.constDirectives()
		added += p.fieldsDefinition(false)
	case "union":
		p.ev.add(tag, "UNION", p.name())
		p.ev.add("DESC", desc, "")
		added += p.constDirectives()
		if p.eat(KEquals) {
			p.eat(KPipe)
			for {
				p.ev.add("MEMBER", p.name(), "")
				added++
				if !p.eat(KPipe) {
					break
				}
			}
		}
	case "enum":
		p.ev.add(tag, "ENUM", p.name())
		p.ev.add("DESC", desc, "")
		added += p.constDirectives()
		if p.eat(KBraceL) {
			n := 0
			for p.ok && p.kind() != KBraceR {
				d, _ := p.description()
				v := p.name()
				if (v == "true" || v == "false" || v == "null") && !p.lib.EnumValueKeyword {
					p.fail()
				}
				p.ev.add("ENUMVAL", v, d)
				p.constDirectives()
				n++
			}
			p.need(KBraceR)
			if n == 0 {
				p.fail()
			}
			added += n
		}
	case "input":
		p.ev.add(tag, "INPUT_OBJECT", p.name())
		p.ev.add("DESC", desc, "")
		if ext && p.lib.ExtendInputNonConst {
			mark := len(p.ev)
			p.directives(false)
			for _, e := range p.ev[mark:] {
				if e.Tag == "DIR" {
					added++
				}
			}
		} else {
			added += p.constDirectives()
		}
		added += p.fieldsDefinition(true)
	default:
		p.fail()
	}
	if ext && added == 0 {
		p.fail()
	}
}

func (p *refS) constDirectives() int {
	mark := len(p.ev)
	p.directives(true)
	n := 0
	for _, e := range p.ev[mark:] {
		if e.Tag == "DIR" {
			n++
		}
	}
	return n
}

func (p *refS) fieldsDefinition(input bool) int {
	if !p.eat(KBraceL) {
		return 0
	}
	n := 0
	for p.ok && p.kind() != KBraceR {
		d, _ := p.description()
		p.ev.add("FIELDDEF", p.name(), d)
		if !input {
			p.argumentDefs()
		}
		p.need(KColon)
		p.typeRef()
		if input && p.eat(KEquals) {
			p.ev.add("DEFAULT", "", "")
			p.value(true)
		}
		p.directives(true)
		n++
	}
	p.need(KBraceR)
	if n == 0 {
		p.fail()
	}
	return n
}

func (p *refS) argumentDefs() {
	if !p.eat(KParenL) {
		return
	}
	n := 0
	for p.ok && p.kind() != KParenR {
		d, _ := p.description()
		p.ev.add("ARGDEF", p.name(), d)
		p.need(KColon)
		p.typeRef()
		if p.eat(KEquals) {
			p.ev.add("DEFAULT", "", "")
			p.value(true)
		}
		p.directives(true)
		n++
	}
	p.need(KParenR)
	if n == 0 {
		p.fail()
	}
}

func (p *refS) extension() {
	if p.kind() != KName {
		p.fail()
		return
	}
	p.ev = nil
	if p.val() == "schema" {
		p.i++
		p.ev.add("XSCHEMA", "", "")
		nd := p.constDirectives()
		no := 0
		if p.kind() == KBraceL {
			no = p.operationTypes(true)
		}
		if nd+no == 0 {
			p.fail()
		}
		p.xschema = append(p.xschema, p.ev...)
		return
	}
	p.typeDefinition("", true)
	p.exts = append(p.exts, p.ev...)
}
