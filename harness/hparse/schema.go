package hparse

import (
	"verifh/verifrt"

	"github.com/vektah/gqlparser/v2/ast"
	"github.com/vektah/gqlparser/v2/parser"
)

func n(v string) Tok { return Tok{KName, v} }
func pt(k int) Tok   { return Tok{Kind: k} }

// SchemaPrefixes: concrete openings after which the symbolic tokens follow.
var SchemaPrefixes = [][]Tok{
	{},
	{n("type"), n("a"), pt(KBraceL)},
	{n("type"), n("a"), pt(KBraceL), n("a"), pt(KParenL)},
	{n("type"), n("a"), n("implements")},
	{n("extend")},
	{n("directive"), pt(KAt), n("a")},
	{n("enum"), n("a"), pt(KBraceL)},
	{n("union"), n("a"), pt(KEquals)},
	{n("input"), n("a"), pt(KBraceL), n("a"), pt(KColon), n("a"), pt(KEquals)},
	{n("schema"), pt(KBraceL)},
	{{KString, "x"}},
	{n("extend"), n("type"), n("a")},
	{n("extend"), n("schema")},
	{n("type"), n("a"), pt(KBraceL), n("a"), pt(KColon), n("a"), pt(KAt), n("a"), pt(KParenL), n("a"), pt(KColon)},
	{n("extend"), n("input"), n("a"), pt(KAt), n("a"), pt(KParenL), n("a"), pt(KColon)},
	{n("extend"), n("interface"), n("a")},
	{n("type"), n("a"), pt(KBraceL), {KString, "x"}},
	{n("schema")},
	{n("directive"), pt(KAt), n("a"), pt(KParenL), n("a"), pt(KColon), n("a")},
	{n("type"), n("a"), pt(KBraceL), n("a"), pt(KColon), pt(KBracketL)},
}

// SchemaSuffixes[i] closes the document after the symbolic tokens of prefix i (may be empty).
var SchemaSuffixes = map[int][]Tok{
	14: {pt(KParenR)},
	15: {},
}

// dirOpen is "@ a ( a :" - the hole that follows is the value of a directive argument.
func dirOpen(pre ...Tok) []Tok {
	return append(append([]Tok(nil), pre...), pt(KAt), n("a"), pt(KParenL), n("a"), pt(KColon))
}

func toks(ts ...Tok) []Tok { return ts }

// SchemaHoles: one (opening, closing) pair per position of the type-system
// grammar that holds a constant value - every directive-argument value and every
// default value. A few symbolic tokens fill the hole; each position passes its
// own const flag in the library, so each needs its own template.
var SchemaHoles = [][2][]Tok{
	{dirOpen(n("schema")), toks(pt(KParenR), pt(KBraceL), n("query"), pt(KColon), n("a"), pt(KBraceR))},
	{dirOpen(n("scalar"), n("a")), toks(pt(KParenR))},
	{dirOpen(n("type"), n("a")), toks(pt(KParenR), pt(KBraceL), n("a"), pt(KColon), n("a"), pt(KBraceR))},
	{dirOpen(n("type"), n("a"), pt(KBraceL), n("a"), pt(KColon), n("a")), toks(pt(KParenR), pt(KBraceR))},
	{toks(n("type"), n("a"), pt(KBraceL), n("a"), pt(KParenL), n("a"), pt(KColon), n("a"), pt(KEquals)), toks(pt(KParenR), pt(KColon), n("a"), pt(KBraceR))},
	{dirOpen(n("type"), n("a"), pt(KBraceL), n("a"), pt(KParenL), n("a"), pt(KColon), n("a")), toks(pt(KParenR), pt(KParenR), pt(KColon), n("a"), pt(KBraceR))},
	{dirOpen(n("interface"), n("a")), toks(pt(KParenR), pt(KBraceL), n("a"), pt(KColon), n("a"), pt(KBraceR))},
	{dirOpen(n("interface"), n("a"), pt(KBraceL), n("a"), pt(KParenL), n("a"), pt(KColon), n("a")), toks(pt(KParenR), pt(KParenR), pt(KColon), n("a"), pt(KBraceR))},
	{dirOpen(n("union"), n("a")), toks(pt(KParenR), pt(KEquals), n("a"))},
	{dirOpen(n("enum"), n("a")), toks(pt(KParenR), pt(KBraceL), n("a"), pt(KBraceR))},
	{dirOpen(n("enum"), n("a"), pt(KBraceL), n("a")), toks(pt(KParenR), pt(KBraceR))},
	{dirOpen(n("input"), n("a")), toks(pt(KParenR), pt(KBraceL), n("a"), pt(KColon), n("a"), pt(KBraceR))},
	{toks(n("input"), n("a"), pt(KBraceL), n("a"), pt(KColon), n("a"), pt(KEquals)), toks(pt(KBraceR))},
	{dirOpen(n("input"), n("a"), pt(KBraceL), n("a"), pt(KColon), n("a")), toks(pt(KParenR), pt(KBraceR))},
	{toks(n("directive"), pt(KAt), n("a"), pt(KParenL), n("a"), pt(KColon), n("a"), pt(KEquals)), toks(pt(KParenR), n("on"), n("FIELD"))},
	{dirOpen(n("directive"), pt(KAt), n("a"), pt(KParenL), n("a"), pt(KColon), n("a")), toks(pt(KParenR), pt(KParenR), n("on"), n("FIELD"))},
	{dirOpen(n("extend"), n("schema")), toks(pt(KParenR))},
	{dirOpen(n("extend"), n("scalar"), n("a")), toks(pt(KParenR))},
	{dirOpen(n("extend"), n("type"), n("a")), toks(pt(KParenR))},
	{dirOpen(n("extend"), n("type"), n("a"), pt(KBraceL), n("a"), pt(KColon), n("a")), toks(pt(KParenR), pt(KBraceR))},
	{dirOpen(n("extend"), n("interface"), n("a")), toks(pt(KParenR))},
	{dirOpen(n("extend"), n("union"), n("a")), toks(pt(KParenR))},
	{dirOpen(n("extend"), n("enum"), n("a")), toks(pt(KParenR))},
	{dirOpen(n("extend"), n("input"), n("a")), toks(pt(KParenR))},
	{dirOpen(n("extend"), n("input"), n("a"), pt(KBraceL), n("a"), pt(KColon), n("a")), toks(pt(KParenR), pt(KBraceR))},
}

// SchemaSeedDocs: complete, valid type-system documents (each hole template
// filled with the constant 1, plus documents for the productions the templates
// do not contain). Tokens are inserted at every position of each.
func SchemaSeedDocs() [][]Tok {
	var docs [][]Tok
	for _, h := range SchemaHoles {
		d := append(append(append([]Tok(nil), h[0]...), Tok{KInt, "1"}), h[1]...)
		docs = append(docs, d)
	}
	docs = append(docs,
		toks(n("type"), n("a"), n("implements"), n("a"), pt(KAmp), n("b"), pt(KBraceL), n("a"), pt(KParenL), n("a"), pt(KColon), pt(KBracketL), n("a"), pt(KBang), pt(KBracketR), pt(KParenR), pt(KColon), n("a"), pt(KBang), pt(KBraceR)),
		toks(Tok{KString, "x"}, n("interface"), n("a"), pt(KBraceL), Tok{KBlockString, "x"}, n("a"), pt(KColon), n("a"), pt(KBraceR)),
		toks(n("union"), n("a"), pt(KEquals), pt(KPipe), n("a"), pt(KPipe), n("b")),
		toks(n("enum"), n("a"), pt(KBraceL), Tok{KString, "x"}, n("a"), n("b"), pt(KBraceR)),
		toks(n("directive"), pt(KAt), n("a"), n("repeatable"), n("on"), pt(KPipe), n("FIELD"), pt(KPipe), n("OBJECT")),
		toks(n("schema"), pt(KBraceL), n("query"), pt(KColon), n("a"), n("mutation"), pt(KColon), n("b"), pt(KBraceR), n("scalar"), n("a")),
		toks(n("extend"), n("type"), n("a"), n("implements"), n("a")),
		toks(n("extend"), n("union"), n("a"), pt(KEquals), n("a")),
		toks(n("extend"), n("enum"), n("a"), pt(KBraceL), n("a"), pt(KBraceR)),
		toks(n("extend"), n("schema"), pt(KBraceL), n("query"), pt(KColon), n("a"), pt(KBraceR)),
	)
	return docs
}

func schemaStream() ([]Tok, *ast.Source) {
	k := verifrt.Param("k", 3)
	pi := verifrt.Param("prefix", 0)
	pre := SchemaPrefixes[pi]
	suf := SchemaSuffixes[pi]
	if h := verifrt.Param("hole", -1); h >= 0 {
		pre, suf = SchemaHoles[h][0], SchemaHoles[h][1]
	}
	if d := verifrt.Param("doc", -1); d >= 0 {
		doc := SchemaSeedDocs()[d]
		total := len(doc) + k
		verifrt.SetOpt("unwind", total+3)
		verifrt.SetOpt("depth", 8*total+40)
		verifrt.SetOpt("merge", verifrt.Param("merge", 0))
		toks := InsertAtEveryGap(doc, k, Alphabet(SchemaNames, verifrt.Param("invalid", 0) != 0))
		return toks, Install(toks)
	}
	total := len(pre) + k + len(suf)
	verifrt.SetOpt("unwind", total+3)
	verifrt.SetOpt("depth", 8*total+40)
	verifrt.SetOpt("merge", verifrt.Param("merge", 0))
	toks := append(append([]Tok(nil), pre...), SymbolicStream(k, Alphabet(SchemaNames, verifrt.Param("invalid", 0) != 0), verifrt.Param("first", -1))...)
	toks = append(toks, suf...)
	SymStart = len(pre)
	return toks, Install(toks)
}

// SchemaRef: C06.
func SchemaRef() {
	toks, src := schemaStream()
	src.BuiltIn = verifrt.Bool("builtin")
	doc, err := parser.ParseSchema(src)
	sig := Significant(toks)
	ok, want := RefSchema(sig, Liberties{})
	if (err == nil) != ok {
		acc := err == nil
		single := false
		try := func(id string, toks []Tok, lib Liberties) {
			o, _ := RefSchema(toks, lib)
			if o == acc {
				single = true
			}
			verifrt.Known(id, o == acc)
		}
		try("KF-C06-empty-document", sig, Liberties{EmptyDocument: true})
		sk := false
		for _, v := range StringKeywordVariants(sig) {
			if o, _ := RefSchema(v, Liberties{}); o == acc {
				sk, single = true, true
			}
		}
		verifrt.Known("KF-C06-string-keyword", sk)
		try("KF-C06-schema-without-operation-types", sig, Liberties{SchemaWithoutOpTypes: true})
		try("KF-C06-extend-input-nonconst-directive", sig, Liberties{ExtendInputNonConst: true})
		try("KF-C06-extend-interface-implements", sig, Liberties{NoExtendIfaceImplement: true})
		try("KF-C06-enum-value-keyword", sig, Liberties{EnumValueKeyword: true})
		try("KF-C06-empty-description-before-extend", sig, Liberties{EmptyDescBeforeExtend: true})
		if !single {
			// several of the listed findings in one input
			all := Liberties{EmptyDocument: true, SchemaWithoutOpTypes: true, ExtendInputNonConst: true, EnumValueKeyword: true, EmptyDescBeforeExtend: true}
			restricted := all
			restricted.NoExtendIfaceImplement = true
			comb := false
			for _, v := range append(StringKeywordVariants(sig), sig) {
				oa, _ := RefSchema(v, all)
				ob, _ := RefSchema(v, restricted)
				if oa == acc || ob == acc {
					comb = true
				}
			}
			verifrt.Known("KF-C06-combination", comb)
		}
	}
	verifrt.Assert((err == nil) == ok, "C06.accepts-iff-derivable")
	if err != nil || !ok {
		if err != nil {
			verifrt.Cover("C06.rejected")
			verifrt.Assert(doc == nil, "C06.nil-doc-on-error")
		}
		return
	}
	verifrt.Cover("C06.accepted")
	verifrt.Assert(doc != nil, "C06.doc-non-nil")
	if doc == nil {
		return
	}
	got := WalkSchema(doc)
	if !SameEvents(got, want) {
		// the string-keyword finding can change the tree without changing the verdict
		// (type a "implements" input b: a description for the strict grammar, a keyword for the library)
		explained := false
		all := Liberties{SchemaWithoutOpTypes: true, EnumValueKeyword: true, EmptyDescBeforeExtend: true, ExtendInputNonConst: true}
		for _, v := range StringKeywordVariants(sig) {
			if o, ev := RefSchema(v, Liberties{}); o && SameEvents(got, ev) {
				explained = true
			}
		}
		verifrt.Known("KF-C06-string-keyword", explained)
		if !explained {
			comb := false
			for _, v := range StringKeywordVariants(sig) {
				if o, ev := RefSchema(v, all); o && SameEvents(got, ev) {
					comb = true
				}
			}
			verifrt.Known("KF-C06-combination", comb)
		}
	}
	verifrt.Assert(SameEvents(got, want), "C06.same-tree")
	for _, d := range doc.Definitions {
		verifrt.Assert(d.BuiltIn == src.BuiltIn, "C06.builtin-flag")
	}
	for _, d := range doc.Extensions {
		verifrt.Assert(d.BuiltIn == src.BuiltIn, "C06.builtin-flag")
	}
}

// SchemaTotal: C01 / C20 for the type-system parser.
func SchemaTotal() {
	toks, src := schemaStream()
	k := len(toks)
	limit := verifrt.Int("limit", 0, k+2)
	doc, err := parser.ParseSchemaWithLimit(src, limit)
	verifrt.Assert(doc != nil || err != nil, "C01.doc-or-error")
	if err == nil {
		verifrt.Cover("C01.parsed")
		return
	}
	verifrt.Cover("C01.syntax-error")
	wellFormedSyntaxError(err, k, limit)
}

// SchemaLimit: C16 for the type-system grammar.
func SchemaLimit() {
	toks, src := schemaStream()
	k := len(toks)
	limit := verifrt.Split(verifrt.Int("limit", 0, k+2))
	doc0, err0 := parser.ParseSchema(src)
	if verifrt.Native() {
		src = &ast.Source{Name: src.Name, Input: src.Input}
	} else {
		Rewind()
	}
	doc1, err1 := parser.ParseSchemaWithLimit(src, limit)
	want := err0 == nil && (limit == 0 || k <= limit)
	verifrt.Assert((err1 == nil) == want, "C16.exact")
	if err0 == nil && err1 == nil {
		verifrt.Cover("C16.both-parse")
		verifrt.Assert(SameEvents(WalkSchema(doc0), WalkSchema(doc1)), "C16.same-tree")
	}
	if limit > 0 && k > limit {
		verifrt.Cover("C16.over-limit")
		verifrt.Assert(err1 != nil, "C16.over-limit-fails")
		if k > limit+2 {
			cut := append(append([]Tok(nil), toks[:limit+2]...), Tok{Kind: KInvalid})
			src2 := Install(cut)
			_, err2 := parser.ParseSchemaWithLimit(src2, limit)
			verifrt.Assert(err2 != nil && err1 != nil && err2.Error() == err1.Error(), "C16.work-bounded-by-limit")
		}
	}
}

// SchemaStream / SchemaAlphabet: see QueryStream.
func SchemaStream() ([]Tok, *ast.Source) { return schemaStream() }
func SchemaAlphabet() []Tok              { return Alphabet(SchemaNames, verifrt.Param("invalid", 0) != 0) }
