package hparse

import (
	"verifh/verifrt"

	"github.com/vektah/gqlparser/v2/ast"
	"github.com/vektah/gqlparser/v2/gqlerror"
	"github.com/vektah/gqlparser/v2/parser"
)

// QueryPrefixes are concrete openings after which the symbolic tokens follow,
// so that the inner productions are reached with few symbolic tokens.
var QueryPrefixes = [][]Tok{
	{},
	{{KName, "query"}, {KName, "a"}, {KParenL, ""}},
	{{KName, "query"}, {KParenL, ""}, {KDollar, ""}, {KName, "a"}, {KColon, ""}, {KName, "a"}},
	{{KBraceL, ""}, {KName, "a"}, {KParenL, ""}, {KName, "a"}, {KColon, ""}},
	{{KBraceL, ""}, {KSpread, ""}},
	{{KName, "fragment"}, {KName, "a"}},
	{{KBraceL, ""}, {KName, "a"}, {KAt, ""}, {KName, "a"}, {KParenL, ""}, {KName, "a"}, {KColon, ""}, {KBracketL, ""}},
	{{KName, "query"}, {KParenL, ""}, {KDollar, ""}, {KName, "a"}, {KColon, ""}, {KBracketL, ""}, {KName, "a"}},
	{{KName, "query"}, {KParenL, ""}, {KDollar, ""}, {KName, "a"}, {KColon, ""}, {KName, "a"}, {KEquals, ""}},
	{{KName, "query"}, {KParenL, ""}, {KDollar, ""}, {KName, "a"}, {KColon, ""}, {KName, "a"}, {KAt, ""}, {KName, "a"}, {KParenL, ""}, {KName, "a"}, {KColon, ""}},
	{{KBraceL, ""}, {KName, "a"}, {KBraceL, ""}},
	{{KBraceL, ""}, {KName, "a"}, {KParenL, ""}, {KName, "a"}, {KColon, ""}, {KBraceL, ""}, {KName, "a"}, {KColon, ""}},
}

func qDirOpen(pre ...Tok) []Tok {
	return append(append([]Tok(nil), pre...), Tok{Kind: KAt}, Tok{KName, "a"}, Tok{Kind: KParenL}, Tok{KName, "a"}, Tok{Kind: KColon})
}

// QueryHoles: (opening, closing) around a hole at every value position of the
// executable grammar - the two constant ones (variable default, variable
// directive) and the ones where variables are allowed - and at the name
// positions that follow a punctuator or keyword (alias, type condition, variable).
var QueryHoles = [][2][]Tok{
	// const: default value of a variable
	{{{KName, "query"}, {Kind: KParenL}, {Kind: KDollar}, {KName, "a"}, {Kind: KColon}, {KName, "a"}, {Kind: KEquals}}, {{Kind: KParenR}, {Kind: KBraceL}, {KName, "a"}, {Kind: KBraceR}}},
	// const (listed finding: parsed as non-const): directive on a variable definition
	{qDirOpen(Tok{KName, "query"}, Tok{Kind: KParenL}, Tok{Kind: KDollar}, Tok{KName, "a"}, Tok{Kind: KColon}, Tok{KName, "a"}), {{Kind: KParenR}, {Kind: KParenR}, {Kind: KBraceL}, {KName, "a"}, {Kind: KBraceR}}},
	// variables allowed: field argument, field / operation / spread / inline fragment / fragment definition directives
	{{{Kind: KBraceL}, {KName, "a"}, {Kind: KParenL}, {KName, "a"}, {Kind: KColon}}, {{Kind: KParenR}, {Kind: KBraceR}}},
	{qDirOpen(Tok{Kind: KBraceL}, Tok{KName, "a"}), {{Kind: KParenR}, {Kind: KBraceR}}},
	{qDirOpen(Tok{KName, "query"}), {{Kind: KParenR}, {Kind: KBraceL}, {KName, "a"}, {Kind: KBraceR}}},
	{qDirOpen(Tok{Kind: KBraceL}, Tok{Kind: KSpread}, Tok{KName, "a"}), {{Kind: KParenR}, {Kind: KBraceR}}},
	{qDirOpen(Tok{Kind: KBraceL}, Tok{Kind: KSpread}), {{Kind: KParenR}, {Kind: KBraceL}, {KName, "a"}, {Kind: KBraceR}, {Kind: KBraceR}}},
	{qDirOpen(Tok{KName, "fragment"}, Tok{KName, "a"}, Tok{KName, "on"}, Tok{KName, "a"}), {{Kind: KParenR}, {Kind: KBraceL}, {KName, "a"}, {Kind: KBraceR}}},
	// name positions after a punctuator / keyword
	{{{Kind: KBraceL}, {KName, "a"}, {Kind: KColon}}, {{Kind: KBraceR}}},
	{{{Kind: KBraceL}, {Kind: KSpread}, {KName, "on"}}, {{Kind: KBraceL}, {KName, "a"}, {Kind: KBraceR}, {Kind: KBraceR}}},
	{{{KName, "fragment"}, {KName, "a"}, {KName, "on"}}, {{Kind: KBraceL}, {KName, "a"}, {Kind: KBraceR}}},
	{{{KName, "query"}, {Kind: KParenL}, {Kind: KDollar}}, {{Kind: KColon}, {KName, "a"}, {Kind: KParenR}, {Kind: KBraceL}, {KName, "a"}, {Kind: KBraceR}}},
	{{{Kind: KBraceL}, {KName, "a"}, {Kind: KParenL}, {KName, "a"}, {Kind: KColon}, {Kind: KDollar}}, {{Kind: KParenR}, {Kind: KBraceR}}},
}

// QuerySeedDocs: complete, valid executable documents (each hole template
// filled, plus a few more); tokens are inserted at every position of each.
func QuerySeedDocs() [][]Tok {
	var docs [][]Tok
	for i, h := range QueryHoles {
		filler := Tok{KInt, "1"}
		if i >= 8 {
			filler = Tok{KName, "b"}
		}
		docs = append(docs, append(append(append([]Tok(nil), h[0]...), filler), h[1]...))
	}
	nm := func(v string) Tok { return Tok{KName, v} }
	p := func(k int) Tok { return Tok{Kind: k} }
	docs = append(docs,
		[]Tok{nm("query"), nm("a"), p(KParenL), p(KDollar), nm("a"), p(KColon), p(KBracketL), nm("a"), p(KBang), p(KBracketR), p(KBang), p(KEquals), p(KBracketL), {KInt, "1"}, p(KBracketR), p(KAt), nm("a"), p(KParenR), p(KAt), nm("a"), p(KBraceL), nm("a"), p(KBraceR)},
		[]Tok{p(KBraceL), nm("a"), p(KColon), nm("b"), p(KParenL), nm("a"), p(KColon), p(KBraceL), nm("a"), p(KColon), p(KDollar), nm("a"), p(KBraceR), p(KParenR), p(KAt), nm("a"), p(KBraceL), nm("a"), p(KBraceR), p(KBraceR)},
		[]Tok{p(KBraceL), p(KSpread), nm("a"), p(KSpread), nm("on"), nm("a"), p(KBraceL), nm("a"), p(KBraceR), p(KSpread), p(KBraceL), nm("a"), p(KBraceR), p(KBraceR), nm("fragment"), nm("a"), nm("on"), nm("a"), p(KAt), nm("a"), p(KBraceL), nm("a"), p(KBraceR)},
		[]Tok{nm("mutation"), p(KBraceL), nm("a"), p(KBraceR), nm("subscription"), nm("a"), p(KBraceL), nm("a"), p(KBraceR)},
	)
	return docs
}

func queryStream() ([]Tok, *ast.Source) {
	k := verifrt.Param("k", 3)
	pre := QueryPrefixes[verifrt.Param("prefix", 0)]
	var suf []Tok
	if h := verifrt.Param("hole", -1); h >= 0 {
		pre, suf = QueryHoles[h][0], QueryHoles[h][1]
	}
	if d := verifrt.Param("doc", -1); d >= 0 {
		doc := QuerySeedDocs()[d]
		total := len(doc) + k
		verifrt.SetOpt("unwind", total+3)
		verifrt.SetOpt("depth", 8*total+40)
		verifrt.SetOpt("merge", verifrt.Param("merge", 0))
		toks := InsertAtEveryGap(doc, k, Alphabet(QueryNames, verifrt.Param("invalid", 0) != 0))
		return toks, Install(toks)
	}
	verifrt.SetOpt("unwind", len(pre)+k+len(suf)+3)
	verifrt.SetOpt("depth", 8*(len(pre)+k+len(suf))+40)
	verifrt.SetOpt("merge", verifrt.Param("merge", 0))
	toks := append(append([]Tok(nil), pre...), SymbolicStream(k, Alphabet(QueryNames, verifrt.Param("invalid", 0) != 0), verifrt.Param("first", -1))...)
	toks = append(toks, suf...)
	SymStart = len(pre)
	return toks, Install(toks)
}

// QueryRef: C05. ParseQuery over every stream of k tokens against the reference.
func QueryRef() {
	toks, src := queryStream()
	doc, err := parser.ParseQuery(src)
	sig := Significant(toks)
	ok, want := RefQuery(sig, Liberties{})
	if (err == nil) != ok {
		// attribute the disagreement to a listed finding only if that finding alone explains it
		acc := err == nil
		o1, _ := RefQuery(sig, Liberties{EmptyDocument: true})
		verifrt.Known("KF-C05-empty-document", o1 == acc)
		o2 := false
		for _, v := range StringKeywordVariants(sig) {
			if o, _ := RefQuery(v, Liberties{}); o == acc {
				o2 = true
			}
		}
		verifrt.Known("KF-C05-string-keyword", o2)
		o3, _ := RefQuery(sig, Liberties{VarInVarDefDirective: true})
		verifrt.Known("KF-C05-var-in-vardef-directive", o3 == acc)
		if o1 != acc && !o2 && o3 != acc {
			// several of the listed findings in one input
			o4 := false
			for _, v := range append(StringKeywordVariants(sig), sig) {
				if o, _ := RefQuery(v, Liberties{EmptyDocument: true, VarInVarDefDirective: true}); o == acc {
					o4 = true
				}
			}
			verifrt.Known("KF-C05-combination", o4)
		}
	}
	verifrt.Assert((err == nil) == ok, "C05.accepts-iff-derivable")
	if err != nil || !ok {
		if err != nil {
			verifrt.Cover("C05.rejected")
		}
		return
	}
	verifrt.Cover("C05.accepted")
	verifrt.Assert(doc != nil, "C05.doc-non-nil")
	if doc == nil {
		return
	}
	got := WalkQuery(doc)
	if !SameEvents(got, want) {
		// the string-keyword finding can change the tree without changing the verdict
		explained := false
		for _, v := range StringKeywordVariants(sig) {
			if o, ev := RefQuery(v, Liberties{}); o && SameEvents(got, ev) {
				explained = true
			}
		}
		verifrt.Known("KF-C05-string-keyword", explained)
	}
	verifrt.Assert(SameEvents(got, want), "C05.same-tree")
}

// QueryTotal: C01 (parser layer), C20 for syntax errors. Streams may contain
// an Invalid token (lexer error) anywhere; the token limit is symbolic.
func QueryTotal() {
	toks, src := queryStream()
	k := len(toks)
	limit := verifrt.Int("limit", 0, k+2)
	doc, err := parser.ParseQueryWithTokenLimit(src, limit)
	verifrt.Assert(doc != nil || err != nil, "C01.doc-or-error")
	if err == nil {
		verifrt.Cover("C01.parsed")
		verifrt.Assert(doc != nil, "C01.doc-with-nil-error")
		return
	}
	verifrt.Cover("C01.syntax-error")
	wellFormedSyntaxError(err, k, limit)
}

// wellFormedSyntaxError: the error is a located gqlerror naming one of the k+1
// token positions, or the token-limit error.
func wellFormedSyntaxError(err error, k, limit int) {
	gerr, isG := err.(*gqlerror.Error)
	if !isG {
		verifrt.Cover("C20.token-limit-error")
		verifrt.Assert(limit > 0, "C20.unlocated-error-only-for-limit")
		verifrt.Assert(len(err.Error()) > 0, "C20.message-nonempty")
		return
	}
	verifrt.Cover("C20.syntax-error")
	verifrt.Assert(len(gerr.Message) > 0, "C20.message-nonempty")
	verifrt.Assert(len(gerr.Locations) == 1, "C20.one-location")
	if len(gerr.Locations) != 1 {
		return
	}
	if verifrt.Native() {
		verifrt.Assert(gerr.Locations[0].Line >= 1 && gerr.Locations[0].Column >= 1, "C01.error-at-token")
		return
	}
	found := false
	for i := 0; i <= k; i++ {
		_, ln, c := TokPos(i)
		if gerr.Locations[0].Line == ln && gerr.Locations[0].Column == c {
			found = true
		}
	}
	verifrt.Assert(found, "C01.error-at-token")
	file, _ := gerr.Extensions["file"].(string)
	verifrt.Assert(file == "stream.graphql", "C20.file")
}

// QueryLimit: C16 for the executable grammar. The same stream is parsed
// without a limit and with a symbolic limit; a third parse sees the stream cut
// after limit+2 tokens and continued by an unlexable character.
func QueryLimit() {
	toks, src := queryStream()
	k := len(toks)
	limit := verifrt.Split(verifrt.Int("limit", 0, k+2))
	doc0, err0 := parser.ParseQuery(src)
	if verifrt.Native() {
		src = &ast.Source{Name: src.Name, Input: src.Input}
	} else {
		Rewind()
	}
	doc1, err1 := parser.ParseQueryWithTokenLimit(src, limit)
	want := err0 == nil && (limit == 0 || k <= limit)
	verifrt.Assert((err1 == nil) == want, "C16.exact")
	if err0 == nil && err1 == nil {
		verifrt.Cover("C16.both-parse")
		verifrt.Assert(SameEvents(WalkQuery(doc0), WalkQuery(doc1)), "C16.same-tree")
	}
	if limit > 0 && k > limit {
		verifrt.Cover("C16.over-limit")
		verifrt.Assert(err1 != nil, "C16.over-limit-fails")
		if k > limit+2 {
			cut := append(append([]Tok(nil), toks[:limit+2]...), Tok{Kind: KInvalid})
			src2 := Install(cut)
			_, err2 := parser.ParseQueryWithTokenLimit(src2, limit)
			verifrt.Assert(err2 != nil && err1 != nil && err2.Error() == err1.Error(), "C16.work-bounded-by-limit")
		}
	}
}

// QueryStream / QueryAlphabet: the stream builder of the C05 harnesses, for the
// round-trip harnesses of package hfmt.
func QueryStream() ([]Tok, *ast.Source) { return queryStream() }
func QueryAlphabet() []Tok              { return Alphabet(QueryNames, verifrt.Param("invalid", 0) != 0) }
