package hparse

// Event is one node of a parse, flattened; both the reference parsers and the
// walkers over the library's trees emit these.
type Event struct {
	Tag  string
	A, B string
}

type Events []Event

func (e *Events) add(tag, a, b string) { *e = append(*e, Event{tag, a, b}) }
