package hparse

import "github.com/vektah/gqlparser/v2/ast"

// WalkQuery flattens a parsed executable document into the event list the
// reference emits for the same input.
func WalkQuery(doc *ast.QueryDocument) Events {
	var ev Events
	for _, op := range doc.Operations {
		ev.add("OP", string(op.Operation), op.Name)
		walkVarDefs(&ev, op.VariableDefinitions)
		walkDirectives(&ev, op.Directives)
		walkSelectionSet(&ev, op.SelectionSet)
	}
	for _, f := range doc.Fragments {
		ev.add("FRAG", f.Name, f.TypeCondition)
		walkVarDefs(&ev, f.VariableDefinition)
		walkDirectives(&ev, f.Directives)
		walkSelectionSet(&ev, f.SelectionSet)
	}
	return ev
}

func walkVarDefs(ev *Events, defs ast.VariableDefinitionList) {
	for _, d := range defs {
		ev.add("VARDEF", d.Variable, "")
		walkType(ev, d.Type)
		if d.DefaultValue != nil {
			ev.add("DEFAULT", "", "")
			walkValue(ev, d.DefaultValue)
		}
		walkDirectives(ev, d.Directives)
	}
}

func walkType(ev *Events, t *ast.Type) {
	if t == nil {
		ev.add("TYPE", "<nil>", "")
		return
	}
	// shape: '[' per list level, then per level from the inside out '!' and ']'
	shape := ""
	depth := 0
	cur := t
	var chain []*ast.Type
	for cur.Elem != nil {
		chain = append(chain, cur)
		cur = cur.Elem
		depth++
		shape += "["
	}
	if cur.NonNull {
		shape += "!"
	}
	for i := len(chain) - 1; i >= 0; i-- {
		shape += "]"
		if chain[i].NonNull {
			shape += "!"
		}
	}
	ev.add("TYPE", cur.NamedType, shape)
}

func walkDirectives(ev *Events, ds ast.DirectiveList) {
	for _, d := range ds {
		ev.add("DIR", d.Name, "")
		walkArgs(ev, d.Arguments)
	}
}

func walkArgs(ev *Events, as ast.ArgumentList) {
	for _, a := range as {
		ev.add("ARG", a.Name, "")
		walkValue(ev, a.Value)
	}
}

func walkSelectionSet(ev *Events, ss ast.SelectionSet) {
	ev.add("SEL{", "", "")
	for _, s := range ss {
		switch x := s.(type) {
		case *ast.Field:
			ev.add("FIELD", x.Alias, x.Name)
			walkArgs(ev, x.Arguments)
			walkDirectives(ev, x.Directives)
			if x.SelectionSet != nil {
				walkSelectionSet(ev, x.SelectionSet)
			}
		case *ast.FragmentSpread:
			ev.add("SPREAD", x.Name, "")
			walkDirectives(ev, x.Directives)
		case *ast.InlineFragment:
			ev.add("INLINE", x.TypeCondition, "")
			walkDirectives(ev, x.Directives)
			walkSelectionSet(ev, x.SelectionSet)
		}
	}
	ev.add("}SEL", "", "")
}

var valueKindNames = map[ast.ValueKind]string{
	ast.Variable: "var", ast.IntValue: "int", ast.FloatValue: "float", ast.StringValue: "string", ast.BlockValue: "block",
	ast.BooleanValue: "bool", ast.NullValue: "null", ast.EnumValue: "enum",
}

func walkValue(ev *Events, v *ast.Value) {
	if v == nil {
		ev.add("VAL", "<nil>", "")
		return
	}
	switch v.Kind {
	case ast.ListValue:
		ev.add("LIST[", "", "")
		for _, c := range v.Children {
			walkValue(ev, c.Value)
		}
		ev.add("]LIST", "", "")
	case ast.ObjectValue:
		ev.add("OBJ{", "", "")
		for _, c := range v.Children {
			ev.add("OBJFIELD", c.Name, "")
			walkValue(ev, c.Value)
		}
		ev.add("}OBJ", "", "")
	default:
		ev.add("VAL", valueKindNames[v.Kind], v.Raw)
	}
}

// SameEvents asserts nothing; it reports whether the two lists are equal.
func SameEvents(a, b Events) bool {
	if len(a) != len(b) {
		return false
	}
	for i := range a {
		if a[i].Tag != b[i].Tag || a[i].A != b[i].A || a[i].B != b[i].B {
			return false
		}
	}
	return true
}

// BlockAsString makes block-string values plain string values: the two are spellings of
// the same StringValue, and the printer is free to choose (round-trip comparisons).
func BlockAsString(ev Events) Events {
	out := append(Events(nil), ev...)
	for i := range out {
		if out[i].Tag == "VAL" && out[i].A == "block" {
			out[i].A = "string"
		}
	}
	return out
}
