package hparse

import (
	"os"
	"testing"

	"github.com/vektah/gqlparser/v2/ast"
	"github.com/vektah/gqlparser/v2/lexer"
	"github.com/vektah/gqlparser/v2/parser"
	"gopkg.in/yaml.v3"
)

type spec struct {
	Name  string
	Input string
}

func loadSpecs(t *testing.T, path string) []spec {
	b, err := os.ReadFile(path)
	if err != nil {
		t.Fatal(err)
	}
	var m map[string][]spec
	if err := yaml.Unmarshal(b, &m); err != nil {
		t.Fatal(err)
	}
	var out []spec
	for _, l := range m {
		out = append(out, l...)
	}
	return out
}

func lexAll(in string) ([]Tok, bool) {
	lx := lexer.New(&ast.Source{Input: in})
	var toks []Tok
	for {
		t, err := lx.ReadToken()
		if err != nil {
			return nil, false
		}
		if t.Kind == lexer.EOF {
			return toks, true
		}
		toks = append(toks, Tok{int(t.Kind), t.Value})
	}
}

func TestRefQueryCorpus(t *testing.T) {
	specs := loadSpecs(t, "/repo/parser/query_test.yml")
	n, diffs := 0, 0
	for _, s := range specs {
		toks, ok := lexAll(s.Input)
		if !ok {
			continue
		}
		n++
		doc, err := parser.ParseQuery(&ast.Source{Input: s.Input})
		rok, ev := RefQuery(Significant(toks), Liberties{})
		if rok != (err == nil) {
			diffs++
			t.Logf("DIFF verdict %q: impl err=%v ref ok=%v", s.Input, err, rok)
			continue
		}
		if rok && !SameEvents(WalkQuery(doc), ev) {
			diffs++
			t.Logf("DIFF tree %q:\n impl %v\n ref  %v", s.Input, WalkQuery(doc), ev)
		}
	}
	t.Logf("%d inputs, %d differences", n, diffs)
	if n < 20 {
		t.Fatalf("corpus too small")
	}
}

func TestRefSchemaCorpus(t *testing.T) {
	specs := loadSpecs(t, "/repo/parser/schema_test.yml")
	b, _ := os.ReadFile("/repo/validator/imported/prelude.graphql")
	specs = append(specs, spec{"prelude", string(b)})
	n, diffs := 0, 0
	for _, s := range specs {
		toks, ok := lexAll(s.Input)
		if !ok {
			continue
		}
		n++
		doc, err := parser.ParseSchema(&ast.Source{Input: s.Input})
		rok, ev := RefSchema(Significant(toks), Liberties{})
		if rok != (err == nil) {
			diffs++
			t.Logf("DIFF verdict %q: impl err=%v ref ok=%v", s.Input, err, rok)
			continue
		}
		if rok && !SameEvents(WalkSchema(doc), ev) {
			diffs++
			t.Logf("DIFF tree %q:\n impl %v\n ref  %v", s.Input, WalkSchema(doc), ev)
		}
	}
	t.Logf("%d inputs, %d differences", n, diffs)
	if n < 20 {
		t.Fatalf("corpus too small")
	}
}

// Every hole template, filled with one valid filler, must be a document that both the
// library and the reference accept - otherwise the symbolic cases through it are vacuous.
func TestHoleTemplatesAreWellFormed(t *testing.T) {
	for i, h := range SchemaHoles {
		toks := append(append(append([]Tok(nil), h[0]...), Tok{KInt, "1"}), h[1]...)
		src := Render(toks)
		_, err := parser.ParseSchema(&ast.Source{Input: src})
		ok, _ := RefSchema(Significant(toks), Liberties{})
		if err != nil || !ok {
			t.Errorf("schema hole %d filled with 1: library err=%v reference ok=%v\n%s", i, err, ok, src)
		}
	}
	for i, h := range QueryHoles {
		filler := Tok{KInt, "1"}
		if i >= 8 {
			filler = Tok{KName, "b"}
		}
		toks := append(append(append([]Tok(nil), h[0]...), filler), h[1]...)
		src := Render(toks)
		_, err := parser.ParseQuery(&ast.Source{Input: src})
		ok, _ := RefQuery(Significant(toks), Liberties{})
		if err != nil || !ok {
			t.Errorf("query hole %d filled: library err=%v reference ok=%v\n%s", i, err, ok, src)
		}
	}
	for i, d := range SchemaSeedDocs() {
		src := Render(d)
		_, err := parser.ParseSchema(&ast.Source{Input: src})
		ok, _ := RefSchema(Significant(d), Liberties{})
		if err != nil || !ok {
			t.Errorf("schema seed document %d: library err=%v reference ok=%v\n%s", i, err, ok, src)
		}
	}
	for i, d := range QuerySeedDocs() {
		src := Render(d)
		_, err := parser.ParseQuery(&ast.Source{Input: src})
		ok, _ := RefQuery(Significant(d), Liberties{})
		if err != nil || !ok {
			t.Errorf("query seed document %d: library err=%v reference ok=%v\n%s", i, err, ok, src)
		}
	}
	t.Logf("%d schema holes, %d query holes, %d schema seed documents, %d query seed documents", len(SchemaHoles), len(QueryHoles), len(SchemaSeedDocs()), len(QuerySeedDocs()))
}
