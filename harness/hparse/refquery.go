package hparse

// Reference recogniser for executable documents, written from section 2 of the
// specification (October 2021) plus the two extensions the library documents:
// directives on variable definitions and (experimental) variables on fragment
// definitions. It works on the comment-free token list and emits events.

// Liberties are single, named departures from the grammar. The harness uses
// them only to attribute a disagreement to a listed finding: each is tried
// alone, and only when the strict grammar and the library disagree.
type Liberties struct {
	EmptyDocument          bool // Document: Definition* instead of Definition+
	VarInVarDefDirective   bool // directives of variable definitions are not const
	SchemaWithoutOpTypes   bool // 'schema' Directives? without '{ ... }'
	ExtendInputNonConst    bool // directives of 'extend input' are not const
	NoExtendIfaceImplement bool // restriction: 'extend interface X implements ...' is not derivable
	EnumValueKeyword       bool // enum values may be named true / false / null
	EmptyDescBeforeExtend  bool // an empty string literal may precede 'extend'
}

type refQ struct {
	t   []Tok
	i   int
	ok  bool
	ev  Events
	lib Liberties
}

func (p *refQ) kind() int {
	if p.i < len(p.t) {
		return p.t[p.i].Kind
	}
	return KEOF
}

func (p *refQ) val() string {
	if p.i < len(p.t) {
		return p.t[p.i].Val
	}
	return ""
}

func (p *refQ) fail() { p.ok = false }

func (p *refQ) eat(k int) bool {
	if p.ok && p.kind() == k {
		p.i++
		return true
	}
	return false
}

func (p *refQ) need(k int) {
	if !p.eat(k) {
		p.fail()
	}
}

func (p *refQ) isKeyword(v string) bool { return p.kind() == KName && p.val() == v }

func (p *refQ) name() string {
	if !p.ok || p.kind() != KName {
		p.fail()
		return ""
	}
	v := p.val()
	p.i++
	return v
}

// StringKeywordsAsNames rewrites String / BlockString tokens whose value is a
// keyword of the grammars into Name tokens (the "string keyword" finding).
func StringKeywordsAsNames(toks []Tok) []Tok {
	out := make([]Tok, len(toks))
	for i, t := range toks {
		if (t.Kind == KString || t.Kind == KBlockString) && (t.Val == "on" || t.Val == "implements") {
			t.Kind = KName
		}
		out[i] = t
	}
	return out
}

// StringKeywordVariants returns every way of reading the String / BlockString
// tokens whose value is a keyword as Name tokens (the library decides per
// position: such a string may still be an ordinary string or a description).
// The unchanged stream is not included.
func StringKeywordVariants(toks []Tok) [][]Tok {
	var pos []int
	for i, t := range toks {
		if (t.Kind == KString || t.Kind == KBlockString) && (t.Val == "on" || t.Val == "implements") {
			pos = append(pos, i)
		}
	}
	if len(pos) > 4 {
		pos = pos[:4]
	}
	var out [][]Tok
	for mask := 1; mask < 1<<len(pos); mask++ {
		v := append([]Tok(nil), toks...)
		for b, p := range pos {
			if mask&(1<<b) != 0 {
				v[p].Kind = KName
			}
		}
		out = append(out, v)
	}
	return out
}

// RefQuery parses toks (comments already removed).
func RefQuery(toks []Tok, lib Liberties) (ok bool, ev Events) {
	lenientVarDirectives := lib.VarInVarDefDirective
	p := &refQ{t: toks, ok: true, lib: lib}
	var ops, frags Events
	n := 0
	for p.ok && p.kind() != KEOF {
		p.ev = nil
		if p.isKeyword("fragment") {
			p.fragmentDefinition(lenientVarDirectives)
			frags = append(frags, p.ev...)
		} else {
			p.operationDefinition(lenientVarDirectives)
			ops = append(ops, p.ev...)
		}
		n++
	}
	if n == 0 && !lib.EmptyDocument {
		return false, nil // Document: Definition+
	}
	if !p.ok {
		return false, nil
	}
	return true, append(ops, frags...)
}

func (p *refQ) operationDefinition(lenient bool) {
	if p.kind() == KBraceL {
		p.ev.add("OP", "query", "")
		p.selectionSet()
		return
	}
	if !(p.isKeyword("query") || p.isKeyword("mutation") || p.isKeyword("subscription")) {
		p.fail()
		return
	}
	op := p.name()
	nm := ""
	if p.kind() == KName {
		nm = p.name()
	}
	p.ev.add("OP", op, nm)
	p.variableDefinitions(lenient)
	p.directives(false)
	p.selectionSet()
}

func (p *refQ) variableDefinitions(lenient bool) {
	if !p.eat(KParenL) {
		return
	}
	n := 0
	for p.ok && p.kind() != KParenR {
		p.need(KDollar)
		p.ev.add("VARDEF", p.name(), "")
		p.need(KColon)
		p.typeRef()
		if p.eat(KEquals) {
			p.ev.add("DEFAULT", "", "")
			p.value(true)
		}
		// Directives[Const]
		p.directives(!lenient)
		n++
	}
	p.need(KParenR)
	if n == 0 {
		p.fail()
	}
}

func (p *refQ) typeRef() {
	shape := ""
	depth := 0
	for p.eat(KBracketL) {
		shape += "["
		depth++
	}
	nm := p.name()
	if p.eat(KBang) {
		shape += "!"
	}
	for depth > 0 {
		p.need(KBracketR)
		shape += "]"
		if p.eat(KBang) {
			shape += "!"
		}
		depth--
	}
	p.ev.add("TYPE", nm, shape)
}

func (p *refQ) selectionSet() {
	p.need(KBraceL)
	p.ev.add("SEL{", "", "")
	n := 0
	for p.ok && p.kind() != KBraceR {
		p.selection()
		n++
	}
	p.need(KBraceR)
	if n == 0 {
		p.fail()
	}
	p.ev.add("}SEL", "", "")
}

func (p *refQ) selection() {
	if p.eat(KSpread) {
		if p.kind() == KName && p.val() != "on" {
			p.ev.add("SPREAD", p.name(), "")
			p.directives(false)
			return
		}
		cond := ""
		if p.isKeyword("on") {
			p.i++
			cond = p.name()
		}
		p.ev.add("INLINE", cond, "")
		p.directives(false)
		p.selectionSet()
		return
	}
	first := p.name()
	if p.eat(KColon) {
		p.ev.add("FIELD", first, p.name())
	} else {
		p.ev.add("FIELD", first, first)
	}
	p.arguments(false)
	p.directives(false)
	if p.kind() == KBraceL {
		p.selectionSet()
	}
}

func (p *refQ) arguments(isConst bool) {
	if !p.eat(KParenL) {
		return
	}
	n := 0
	for p.ok && p.kind() != KParenR {
		p.ev.add("ARG", p.name(), "")
		p.need(KColon)
		p.value(isConst)
		n++
	}
	p.need(KParenR)
	if n == 0 {
		p.fail()
	}
}

func (p *refQ) directives(isConst bool) {
	for p.ok && p.eat(KAt) {
		p.ev.add("DIR", p.name(), "")
		p.arguments(isConst)
	}
}

func (p *refQ) fragmentDefinition(lenient bool) {
	p.i++ // fragment
	if p.isKeyword("on") {
		p.fail()
		return
	}
	nm := p.name()
	// experimental: variable definitions on fragments
	mark := len(p.ev)
	p.variableDefinitions(lenient)
	vars := append(Events(nil), p.ev[mark:]...)
	p.ev = p.ev[:mark]
	if !p.isKeyword("on") {
		p.fail()
		return
	}
	p.i++
	p.ev.add("FRAG", nm, p.name())
	p.ev = append(p.ev, vars...)
	p.directives(false)
	p.selectionSet()
}

func (p *refQ) value(isConst bool) {
	if !p.ok {
		return
	}
	switch p.kind() {
	case KDollar:
		if isConst {
			p.fail()
			return
		}
		p.i++
		p.ev.add("VAL", "var", p.name())
	case KInt:
		p.ev.add("VAL", "int", p.val())
		p.i++
	case KFloat:
		p.ev.add("VAL", "float", p.val())
		p.i++
	case KString:
		p.ev.add("VAL", "string", p.val())
		p.i++
	case KBlockString:
		p.ev.add("VAL", "block", p.val())
		p.i++
	case KName:
		v := p.val()
		switch v {
		case "true", "false":
			p.ev.add("VAL", "bool", v)
		case "null":
			p.ev.add("VAL", "null", v)
		default:
			p.ev.add("VAL", "enum", v)
		}
		p.i++
	case KBracketL:
		p.i++
		p.ev.add("LIST[", "", "")
		for p.ok && p.kind() != KBracketR {
			if p.kind() == KEOF {
				p.fail()
				return
			}
			p.value(isConst)
		}
		p.need(KBracketR)
		p.ev.add("]LIST", "", "")
	case KBraceL:
		p.i++
		p.ev.add("OBJ{", "", "")
		for p.ok && p.kind() != KBraceR {
			p.ev.add("OBJFIELD", p.name(), "")
			p.need(KColon)
			p.value(isConst)
		}
		p.need(KBraceR)
		p.ev.add("}OBJ", "", "")
	default:
		p.fail()
	}
}
